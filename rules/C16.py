"""C16 — index symbols form a base-16 positional code shared by encoder and decoder.

I1 folded INDEX_ALPHABET = the sixteen documented symbols in documented order
I2 folded INDEX_CODE = inverse enumeration of INDEX_ALPHABET (a plain closed table)
I3 decoder side, for each arity the tables allow (1, 2, 3): the value computed from the symbols read is
   sum(code(s_k) * 16**(n-1-k)); a symbol outside the sixteen and a missing symbol both count as digit 0
I4 the reader passes the symbol component of the (position, symbol) pairs and produces exactly n digits
I5 encoder side: negative input rejected, 0 -> [INDEX_ALPHABET[0]], radix folds to 16, digits are looked
   up in INDEX_ALPHABET; if the digit loop has the standard form: digit = index % 16, index //= 16,
   result reversed (big-endian)
Not decided: shortest-representation of an arbitrary rewrite of the encoder's digit computation.
"""
import ast

from sa import AnalysisError
from sa.db import unparse, own_nodes
from sa.fold import FoldError
from sa.lin import Lin, ge, le, eq
from sa.sym import Engine, Hooks, Num, Con, Tup, Obj, Unk, Ref, vkey, NONE
from rules import decmodel
from rules.decmodel import num_of
from spec import tables as SPEC

REGISTER = True
META = {
    "explanation": "INDEX_ALPHABET / INDEX_CODE are folded from their closed initialisers and compared with the documented "
                   "table (I1, I2). The decoder-side conversion is partially evaluated with an affine-form domain for each "
                   "arity 1..3 through the index reader (missing symbols included) and compared with the base-16 "
                   "polynomial (I3, I4). The encoder-side conversion is checked for radix, digit table, rejection of "
                   "negatives, the zero case and the standard digit-loop step (I5).",
    "trusted_base": ["spec/tables.py INDEX_SYMBOLS (property statement, derivation.rst + CHANGELOG renaming)",
                     "Fourier-Motzkin entailment"],
    "assumptions": [],
    "level_text": "Static: table folding vs specification, symbolic partial evaluation of the decoder-side polynomial for all "
                  "symbol tuples of arity 1..3 (incl. non-index and missing symbols), structural/semantic checks of the "
                  "encoder-side digit loop.",
    "level_note": "Not decided: that an arbitrary rewrite of the encoder's digit loop yields the shortest big-endian form.",
    "technique": "constant folding of tables + affine partial evaluation (abstract interpretation) of the index conversions",
}


def check_tables(ctx, rep, R1="I1", R2="I2"):
    fo = ctx.fold
    # ---- I1 / I2
    try:
        alpha = fo.global_value("selfies.constants", "INDEX_ALPHABET")
    except FoldError as e:
        alpha = None
        rep.ob(R1, False, None, None, loc="selfies/constants.py", construct="INDEX_ALPHABET",
               witness="index alphabet is not a closed constant table: %s" % e, key="alphabet/unfoldable")
    try:
        code = fo.global_value("selfies.constants", "INDEX_CODE")
    except FoldError as e:
        code = None
        rep.ob(R2, False, None, None, loc="selfies/constants.py", construct="INDEX_CODE",
               witness="index code is not a plain closed table: %s" % e, key="code/unfoldable")
    if alpha is not None:
        alpha = tuple(alpha) if isinstance(alpha, (list, tuple)) else None
        for k, want in enumerate(SPEC.INDEX_SYMBOLS):
            got = alpha[k] if alpha is not None and k < len(alpha) else None
            rep.ob(R1, got == want, None, None, loc="selfies/constants.py", construct="INDEX_ALPHABET[%d]" % k,
                   how="equals documented symbol %s" % want, key="alphabet/%d" % k,
                   witness=None if got == want else "digit %d is %r, documented %r" % (k, got, want))
        ok = alpha is not None and len(alpha) == SPEC.INDEX_BASE
        rep.ob(R1, ok, None, None, loc="selfies/constants.py", construct="len(INDEX_ALPHABET)", how="16 symbols",
               key="alphabet/len", witness=None if ok else "index alphabet has %s symbols" % (len(alpha) if alpha else "?"))
        # cross-check of the doc table through the CHANGELOG renaming
        ren = SPEC.legacy_table()
        doc = tuple(ren.get(s, s) for s in SPEC.DOC_INDEX_SYMBOLS_V1)
        rep.ob(R1, doc == SPEC.INDEX_SYMBOLS, None, None, loc="docs/source/derivation.rst", construct="doc index table via v2 renaming",
               how="specification tables agree", key="alphabet/doc-consistent")
    if code is not None:
        want = {s: i for i, s in enumerate(SPEC.INDEX_SYMBOLS)}
        ok = isinstance(code, dict) and type(code) is dict and code == want
        rep.ob(R2, ok, None, None, loc="selfies/constants.py", construct="INDEX_CODE",
               how="inverse enumeration of the documented alphabet", key="code/inverse", nontrivial=True,
               witness=None if ok else "INDEX_CODE differs from the inverse of the documented alphabet: %s"
               % sorted(set(want.items()) ^ set(code.items() if isinstance(code, dict) else []))[:4])


def check_decoder_side(ctx, rep, R3="I3", R4="I4"):
    # ---- I3 / I4 decoder side
    roles = decmodel.find_roles(ctx)
    reader = roles["index_reader"]
    gis = ctx.fn("selfies.grammar_rules.get_index_from_selfies")
    tables = decmodel.fold_tables(ctx)
    arities = sorted({v[1] for v in tables["branch"].values()} | {v[1] for v in tables["ring"].values()})
    code_name = "selfies.constants.INDEX_CODE"

    class H(Hooks):
        def on_call(self, eng, fr, node, callee, args, kwargs, st):
            if isinstance(callee, tuple) and callee[0] == "ext" and callee[1] == "builtins.next" and len(args) in (1, 2):
                k = sum(1 for t in st.tags if t[0] in ("sym", "end"))
                s2 = _tag(st, ("sym", k))
                # an exhausted iterator stays exhausted
                out = [(s2, Tup([Unk(("pos", k)), Unk(("symbol", k))]))] if not any(t[0] == "end" for t in st.tags) else []
                if len(args) == 1:
                    eng._raise(fr, node, "StopIteration", _tag(st, ("end", k)))
                else:
                    out.append((_tag(st, ("end", k)), args[1]))
                return out
            return None

    def _tag(st, t):
        s2 = st.copy()
        s2.tags = st.tags + (t,)
        return s2

    for n in arities:
        eng = Engine(ctx, H())
        params = {}
        num_param = None
        for p in reader.posparams:
            t = ctx.ty.param.get((reader.qual, p), frozenset())
            if any(a[0] == "int" for a in t) and num_param is None:
                num_param = p
        if num_param is None:
            raise AnalysisError("index reader has no integer parameter (number of symbols)")
        params[num_param] = Num(Lin.const(n))
        fr = eng.run_function(reader, params)
        if not fr.returns:
            rep.ob(R3, False, reader.node, reader, construct="arity %d" % n, witness="index reader has no return path")
        for st, exc_node, exc in fr.raises:
            rep.ob(R3, False, exc_node, reader, construct="arity %d: %s" % (n, exc),
                   witness="reading an index of %d symbol(s) can raise %s (a missing symbol must count as digit 0)" % (n, exc),
                   nontrivial=True)
        shape = decmodel.reader_shape(ctx, reader)
        for st, v in fr.returns:
            if shape is not None and isinstance(v, Tup) and len(v.items) == 2:
                v = v.items[shape]           # (index, symbols read): the index component
            got = num_of(v)
            present = [t for t in st.tags if t[0] in ("sym", "end")]
            kinds = [t[0] for t in present]
            probs = []
            n_sym = kinds.count("sym")
            if n_sym > n or (n_sym < n and "end" not in kinds):
                probs.append("reader consumes %d symbol slot(s) for an index of %d symbol(s)" % (n_sym, n))
            # slots after the end of the input are missing symbols (however many times the reader probed the iterator)
            kinds = ["sym"] * min(n_sym, n) + ["end"] * (n - min(n_sym, n))
            want = Lin.const(0)
            for k in range(n):
                kind = kinds[k] if k < len(kinds) else "end"
                if kind == "sym":
                    term = ("lookup", code_name, vkey(Unk(("symbol", k))))
                    # digit = code(symbol) if the symbol is an index symbol else 0
                    inatom = ("in", vkey(Unk(("symbol", k))), ("folded", code_name))
                    known = st.atoms.get(inatom)
                    if known is True:
                        want = want + Lin.var(term).scale(SPEC.INDEX_BASE ** (n - 1 - k))
                    elif known is False:
                        pass
                    else:
                        probs.append("value does not depend on symbol %d through the index code" % k)
            if got is None:
                probs.append("result is not numeric")
            elif not probs and not st.entails(eq(got, want)):
                probs.append("value is %r, base-16 polynomial gives %r" % (got, want))
            rep.ob(R3, not probs, reader.node, reader,
                   construct="arity %d, slots %s" % (n, ",".join(kinds)),
                   how="value == sum(code(s_k) * 16^(n-1-k)); missing / non-index symbol = digit 0",
                   witness="; ".join(probs) or None, nontrivial=True,
                   key="arity%d/%s/%s" % (n, "".join(k[0] for k in kinds), "ok" if not probs else probs[0][:40]))
    rep.floor(R3, 6)
    if arities != [1, 2, 3]:
        rep.ob(R4, False, None, None, loc="selfies/grammar_rules.py", construct="index arities %s" % arities,
               witness="ring/branch tables allow arities %s, documented 1..3" % arities)
    else:
        rep.ob(R4, True, None, None, loc="selfies/grammar_rules.py", construct="index arities 1,2,3", how="as documented")

    return arities, reader


def check_encoder_side(ctx, rep, R5="I5"):
    # ---- I5 encoder side
    gsi = ctx.fn("selfies.grammar_rules.get_selfies_from_index")

    class H5(Hooks):
        def __init__(self):
            self.loop = None
            self.idx_of = {}

        def on_loop_head(self, eng, fr, node, head):
            if fr.depth == 0:
                head.tags = ()
            return head

        def on_loop(self, eng, fr, node, syms, entered, back, exits, breaks):
            if fr.depth == 0 and self.loop is None:
                self.loop = dict(node=node, syms=syms, entered=entered, back=back, exits=exits, breaks=breaks)

        def on_call(self, eng, fr, node, callee, args, kwargs, st):
            if isinstance(callee, tuple) and callee[0] == "method" and callee[1] in ("append", "insert") and fr.depth == 0 and args:
                op_ = "append" if callee[1] == "append" else ("insert0" if isinstance(args[0], Num) and args[0].lin.is_const() and args[0].lin.k == 0 else "insert")
                s2 = st.copy()
                s2.tags = st.tags + (("digit", args[-1], op_),)
                s2.epoch += 1
                return [(s2, Con(None))]
            if isinstance(callee, tuple) and callee[0] == "method" and callee[1] == "reverse" and fr.depth == 0 and not args:
                s2 = st.copy()
                s2.tags = st.tags + (("reverse-in-place",),)
                s2.epoch += 1
                return [(s2, Con(None))]
            return None
    h5 = H5()
    eng = Engine(ctx, h5)
    idxp = gsi.posparams[0]
    fr = eng.run_function(gsi, {idxp: Num(Lin.var("n"))})
    n = Lin.var("n")
    neg_raises = [st for st, node, exc in fr.raises if st.entails(le(n, -1))]
    neg_returns = [st for st, v in fr.returns if not st.entails(ge(n, 0))]
    ok = bool(neg_raises) and not neg_returns
    rep.ob(R5, ok, gsi.node, gsi, construct="negative index", how="rejected with an exception, never converted",
           witness=None if ok else "a negative index can be converted to symbols", key="negative", nontrivial=True)
    zero = [(st, v) for st, v in fr.returns if st.entails(eq(n, 0))]
    first = SPEC.INDEX_SYMBOLS[0]
    ok = bool(zero) and all(isinstance(v, Tup) and len(v.items) == 1 and isinstance(v.items[0], Con) and v.items[0].value == first
                            for st, v in zero)
    rep.ob(R5, ok, gsi.node, gsi, construct="index 0", how="-> [%s]" % first,
           witness=None if ok else "index 0 is not converted to the single digit-0 symbol", key="zero", nontrivial=True)
    other = [st for st, node, exc in fr.raises if not st.entails(le(n, -1))]
    rep.ob(R5, not other, gsi.node, gsi, construct="non-negative index", how="never raises",
           witness=None if not other else "conversion of a non-negative index can raise", key="total")
    lp = h5.loop
    if lp is None:
        rep.note("encoder-side digit computation is not a loop in the standard form: shortest big-endian representation not decided")
    else:
        probs = []
        head = Lin.var(lp["syms"][idxp]) if idxp in lp["syms"] else None
        B = SPEC.INDEX_BASE
        if head is None:
            probs.append("loop does not update the index")
        else:
            qt, rt = ("div", head.key(), B), ("mod", head.key(), B)
            for b in lp["back"]:
                newv = num_of(b.env.get(idxp))
                if newv is None or not b.entails(eq(newv, Lin.var(qt))):
                    probs.append("index is not floor-divided by 16 per digit")
                digs = [t for t in b.tags if t[0] == "digit"]
                if len(digs) != 1:
                    probs.append("not exactly one digit is produced per iteration")
                    continue
                _, val, op = digs[0]
                okd = False
                if isinstance(val, Unk) and isinstance(val.term, tuple) and val.term[0] == "item" and str(val.term[1]).endswith("INDEX_ALPHABET"):
                    o_ = eng.origin.get(val.term)
                    if o_ and o_[0] == "folded-item" and isinstance(o_[2], Num) and b.entails(eq(o_[2].lin, Lin.var(rt))):
                        okd = True
                if not okd:
                    probs.append("digit is not INDEX_ALPHABET[index % 16]")
                if op == "append":
                    h5.order = "lsb-first"
                elif op == "insert0":
                    h5.order = "msb-first"
                else:
                    probs.append("digits are not collected by append / insert(0, ...)")
            # big-endian result
            rev = False
            for st_, v in fr.returns:
                r_ = False
                if isinstance(v, Unk):
                    o = eng.origin.get(v.term)
                    if o and o[0] == "slice" and not o[2] and not o[3] and len(o[4]) == 1 and isinstance(o[4][0], Num) \
                            and o[4][0].lin.is_const() and o[4][0].lin.k == -1:
                        r_ = True
                    if isinstance(v.term, tuple) and v.term[0] == "ext" and v.term[1] in ("reversed",):
                        r_ = True
                if sum(1 for t in st_.tags if t[0] == "reverse-in-place") % 2 == 1:
                    r_ = not r_          # `digits.reverse()` before the return
                rev = rev or r_
            if getattr(h5, "order", None) == "lsb-first" and not rev:
                probs.append("digits are produced least-significant first but not reversed (must be big-endian)")
            if getattr(h5, "order", None) == "msb-first" and rev:
                probs.append("digits are produced most-significant first and then reversed")
            # loop runs while the remaining index is non-zero
            for ex_ in lp["exits"]:
                hv = Lin.var(lp["syms"][idxp])
                if not ex_.entails(eq(hv, 0)):
                    probs.append("loop may stop while the remaining index is non-zero")
        rep.ob(R5, not probs, lp["node"], gsi, construct="digit loop", how="digit = index % 16 looked up in INDEX_ALPHABET; index //= 16; big-endian",
               witness="; ".join(sorted(set(probs))) or None, nontrivial=True,
               key="loop/" + ("ok" if not probs else "+".join(sorted(set(p[:30] for p in probs)))))


def run(ctx, rep):
    check_tables(ctx, rep)
    rep.floor("I1", 17)

    arities, reader = check_decoder_side(ctx, rep)
    rep.floor("I3", 6)
    check_encoder_side(ctx, rep)
    rep.floor("I5", 3)
    rep.analysed.update({"arities": arities, "index_reader": reader.qual})


def _terms_of_key(k):
    return []


def _fold_int(ctx, f, node):
    """fold an int-valued expression over module constants and simple locals of f (e.g. base = len(INDEX_ALPHABET))"""
    from sa.fold import Frame
    fo = ctx.fold
    if isinstance(node, ast.Name) and node.id in f.locals:
        # unique assignment in f
        assigns = [n for n in own_nodes(f.node) if isinstance(n, ast.Assign) and len(n.targets) == 1
                   and isinstance(n.targets[0], ast.Name) and n.targets[0].id == node.id]
        if len(assigns) == 1:
            return _fold_int(ctx, f, assigns[0].value)
        return None
    try:
        fr = Frame(fo, f.module, fo.module(f.module.name), is_module=True)
        v = fr.eval(node)
        return v if isinstance(v, int) else None
    except Exception:
        return None
