"""C17 — attribution is observation-only and truthful about tokens.

NI  non-interference (E7): with source = the `attribute` parameter of decoder / encoder, the string
    projection of the returned value (the plain return, and component 0 of the returned pair) is untainted,
    explicit and implicit flows included.
Truthfulness, decoder direction (rules/attrib.py; ghost counters + inferred relational loop invariants):
TI1-TI4  input positions: the reader reports what it took, the derivation returns exactly the number of symbols
    consumed and stops only at exhaustion / budget, decoder() offsets each fragment by the sum of the earlier
    counts, every Attribution pairs index and symbol of one enumerate item plus the unmodified offset
TC1 coverage: every atom / bond created is attributed to (enclosing branch symbols) + [its own symbol]
TO1-TO2  output positions: AttributionMap index == characters written - 1 + offset right after the token was
    appended, attribution taken from the object the token prints; fragment offsets include the separators
Truthfulness, encoder direction (token identity only):
TE1 every atom symbol is reported with the attribution stored for the atom it prints
TE2 the SMILES parser stores, for each atom, the text of the token the atom was parsed from
TE3 the graph's attribution store returns what was filed under the same object; add_attribution is its only writer
TE4 whatever position scheme the SMILES parser uses, it treats all bond symbols of SMILES_BOND_ORDERS alike ('-' included)
Not decided: the *position* numbers on the encoder side beyond TE4 (the statement fixes no counting convention for
SMILES tokens and the tree's own convention is irregular: 'C.O', 'C=1CCCCC=1O'), see DESIGN.md.
"""
import ast

from sa import AnalysisError
from sa.db import own_nodes, unparse
from sa.taint import Taint, FuncTaint, fmt

REGISTER = True
META = {
    "explanation": "Interprocedural, field-based taint analysis with implicit flows over the code reachable from decoder() "
                   "and encoder(): the attribute flag is the source; the string the API returns (in both arms of the final "
                   "'tuple or string' selection) is the sink. Because the analysis is flow-insensitive and covers all "
                   "paths and callees, an untainted sink means the string cannot depend on the flag for any input. "
                   "Truthfulness of the decoder's positions is decided by abstract interpretation with ghost counters "
                   "(symbols taken from the iterator, characters appended to the output list): the engine infers the "
                   "relational loop invariants (counter - ghost == const) and every reported position must be entailed "
                   "equal to the ghost expression on every path; coverage and token identity are pairing rules over the "
                   "per-path event sequences.",
    "trusted_base": ["light type inference for class-qualified fields", "external calls: result depends on all arguments and the receiver"],
    "assumptions": [],
    "level_text": "Static non-interference proof for 'requesting attribution never changes the translation', and static proof "
                  "(abstract interpretation, all paths) that the decoder's reported input positions, output indices and "
                  "coverage are exact; token identity on the encoder side.",
    "level_note": "Encoder-side position numbers are not decided (no counting convention is stated for SMILES tokens). The "
                  "proof is modulo the modelled semantics of next()/enumerate/list.append and the role identification "
                  "printed in the evidence.",
    "technique": "interprocedural taint / non-interference analysis + abstract interpretation with ghost counters and inferred relational loop invariants + "
                 "polynomial offset equation and must-dataflow over the encoder's recursive fragment printer",
}


def projections(ctx, T, f, expr, depth=0):
    """locations / taint sources that make up the *string* part of the value of expr in function f.
    Returns (list of tainted sources, description)"""
    ft = FuncTaint(T, f)
    if isinstance(expr, ast.IfExp):
        a, da = projections(ctx, T, f, expr.body, depth)
        b, dbb = projections(ctx, T, f, expr.orelse, depth)
        return a + b, "(%s | %s)" % (da, dbb)
    if isinstance(expr, ast.Tuple) and expr.elts:
        return projections(ctx, T, f, expr.elts[0], depth)
    if isinstance(expr, ast.Name) and (f.qual, expr.id) in ft._comp_vars():
        loc = ("comp", f.qual, expr.id, 0)
        return ([loc] if T.tainted(loc) else []), "%s[0]" % expr.id
    if isinstance(expr, ast.Subscript) and isinstance(expr.value, ast.Name) and isinstance(expr.slice, ast.Constant) \
            and expr.slice.value == 0 and (f.qual, expr.value.id) in ft._comp_vars():
        loc = ("comp", f.qual, expr.value.id, 0)
        return ([loc] if T.tainted(loc) else []), "%s[0]" % expr.value.id
    if isinstance(expr, ast.Call) and depth < 4:
        s = {id(x.node): x for x in ctx.cg.sites(f)}.get(id(expr))
        if s is not None and len(s.callees) == 1 and not s.ext:
            g = s.callees[0]
            outs, descs = [], []
            for r in own_nodes(g.node):
                if isinstance(r, ast.Return) and r.value is not None:
                    o, d = projections(ctx, T, g, r.value, depth + 1)
                    outs.extend(o)
                    descs.append(d)
            # control dependence of the callee itself
            if T.tainted(("pc", g.qual)):
                outs.append(("pc", g.qual))
            return outs, "%s -> {%s}" % (g.name, ", ".join(descs))
    return ft.expr(expr), unparse(expr)[:40]


def run(ctx, rep):
    n = 0
    for api in ("decoder", "encoder"):
        f = ctx.api(api)
        if "attribute" not in f.params:
            raise AnalysisError("%s has no 'attribute' parameter" % api)
        region = list(ctx.cg.region(f))
        T = Taint(ctx, [("var", f.qual, "attribute")], region)
        rets = [r for r in own_nodes(f.node) if isinstance(r, ast.Return) and r.value is not None]
        if not rets:
            raise AnalysisError("%s has no return" % api)
        for r in rets:
            src, desc = projections(ctx, T, f, r.value)
            # implicit flow into the return statement itself (e.g. an early return under the flag)
            n += 1
            ok = not src
            rep.ob("NI", ok, r, f, construct="string returned by %s: %s" % (api, desc),
                   how="string projection is independent of the attribute flag (no explicit or implicit flow)",
                   witness=None if ok else "the returned string depends on the attribute flag: " + T.explain(src[0]),
                   nontrivial=True, key="%s/string" % api)
        # every return must yield the same string expression in both modes: a return placed under the flag
        def _str_proj(r):
            v = r.value
            if isinstance(v, ast.Tuple) and v.elts:
                v = v.elts[0]
            return unparse(v) if isinstance(v, ast.Name) else None
        all_projs = {_str_proj(r) for r in rets}
        for st in own_nodes(f.node):
            if isinstance(st, ast.If) and FuncTaint(T, f).expr(st.test):
                inner = [x for x in ast.walk(st) if isinstance(x, ast.Return)]
                # every return of the function hands out the same (untainted, see above) local as its string, and that local
                # is not rebound under the flag: the flag only chooses whether the attribution list goes with it
                same = len(all_projs) == 1 and None not in all_projs and not any(
                    isinstance(n, ast.Name) and isinstance(n.ctx, ast.Store) and n.id in all_projs for n in ast.walk(st))
                if same:
                    rep.ob("NI", True, st, f, construct="returns selected by the attribute flag", how="both hand out the same local %s as the string" % sorted(all_projs),
                           key="%s/return-under-flag-same-string" % api)
                    continue
                for x in inner:
                    rep.ob("NI", False, x, f, construct="return under the attribute flag",
                           witness="a separate return statement is selected by the attribute flag: the strings of the two modes are computed differently",
                           key="%s/return-under-flag" % api)
        tainted = sorted(fmt(l) for l in T.t)
        rep.analysed["%s_taint_closure" % api] = tainted[:60]
        rep.analysed["%s_region" % api] = len(region)
        # anti-vacuity: the flag must actually reach the attribution machinery
        if len(T.t) < 4:
            raise AnalysisError("attribute flag of %s taints almost nothing (%d locations): source anchor lost" % (api, len(T.t)))
    rep.floor("NI", 2)
    # the flag cannot change the translation through history either: the parsed graph that encoder() edits in place (chirality
    # fix-up) is the call's own, whatever the flag was in earlier calls (C04/S7 shared)
    from sa.effects import Effects
    from rules.shared import check_fresh_return
    check_fresh_return(ctx, Effects(ctx), rep, ctx.fn("selfies.utils.smiles_utils.smiles_to_mol"), "NI", "smiles_to_mol")
    truthfulness(ctx, rep)


def truthfulness(ctx, rep):
    from rules import attrib, decmodel
    roles = attrib.attrib_roles(ctx, dict(decmodel.find_roles(ctx)))
    summ = attrib.reader_summary(ctx, rep, roles["index_reader"], "TI1")
    h, fr, n_attr = attrib.check_derivation(ctx, rep, roles, summ, "TI2", "TI4", "TC1")
    attrib.check_coverage(ctx, rep, roles, h, "TC1")
    attrib.check_fragment_offsets(ctx, rep, roles, "TI3")
    wr = attrib.check_writer(ctx, rep, "TO1", "TO2")
    attrib.check_encoder_tokens(ctx, rep, "TE1")
    attrib.check_parser_attribution(ctx, rep, "TE2")
    attrib.check_graph_store(ctx, rep, "TE3")
    attrib.check_parser_positions(ctx, rep, "TE4")
    attrib.check_encoder_fragment_offsets(ctx, rep, "TE5")
    attrib.check_encoder_branch_offsets(ctx, rep, "TE6")
    for rule, fl in (("TI1", 1), ("TI2", 2), ("TI3", 3), ("TI4", 3), ("TC1", 3), ("TO1", 1), ("TO2", 1), ("TE1", 2), ("TE2", 1), ("TE3", 3), ("TE4", 1)):
        rep.floor(rule, fl)
    rep.analysed.update({"derivation": roles["D"].qual, "index_reader": roles["index_reader"].qual, "writer": wr["W"].qual,
                         "attribution_constructions_checked": n_attr})
