"""C08 — decoder is total: returns or raises DecoderError, always terminates, leaves the constraint state untouched.

X-*  every raise site reachable from decoder() (explicit raises and the implicit-raise catalogue: subscripts, next(),
     int(), asserts, pops, unpacking, division) for both values of the `compatible` flag is converted to DecoderError on
     the way out, discharged by a dominating guard / known length / linear facts, or covered by a named data-structure
     invariant of the hand-confirmed triage table (rules/totality.py)
TERM every while-loop matches a variant template (or a hand-confirmed entry with a stated reason)
REC  call-graph cycles of input-dependent depth are reported (RecursionError)
NW   no function in the region writes the constraint table or calls the setter
"""
from sa import AnalysisError
from sa.effects import Effects
from rules import totality

REGISTER = True
ALLOWED = {"DecoderError"}
META = {
    "explanation": "Exception-escape analysis over the resolved call graph of decoder(): every explicit and implicit raise site is "
                   "enumerated; try/except scoping with the class hierarchy, generator bodies raising at their consumption "
                   "sites (points-to), guard dataflow, folded tables, regex group languages and linear facts (symbolic engine) "
                   "discharge sites; the rest must be covered by a named invariant of the triage table or is reported. "
                   "Termination by variant templates per loop; recursion by call-graph SCCs; state by effect analysis.",
    "trusted_base": ["the named data-structure invariants of rules/totality.py (each with a one-line reason; DESIGN.md App. A)",
                     "implicit-raise catalogue (construct kind -> exception class)", "builtin effect table",
                     "MemoryError / KeyboardInterrupt / warnings-as-errors are outside the property"],
    "assumptions": ["callers pass a str and bools as annotated"],
    "level_text": "Static totality argument: escape set of decoder() is within {DecoderError} for all str inputs and both flags, "
                  "all loops have variants; recursion depth and huge-int conversion are reported as known findings.",
    "level_note": "Known findings F6 (int() of unbounded digit groups: ValueError beyond CPython's 4300-digit limit) and F7 "
                  "(RecursionError for deeply nested branches). Named invariants are trusted as stated.",
    "technique": "exception-escape + guard dataflow + variant-template termination analysis over the call graph",
}


def run(ctx, rep):
    E, ec, occ = totality.analyse(ctx, rep, "decoder", [{"compatible": True}, {"compatible": False}], ALLOWED, "C08")
    n = totality.report(ctx, rep, E, ec, occ, ALLOWED, "C08")
    nl = totality.check_termination(ctx, rep, E, ec)
    nr = totality.check_recursion(ctx, rep, E)
    totality.check_definite_assignment(ctx, rep, E)
    totality.check_none_as_index(ctx, rep, E)
    totality.check_table_shape(ctx, rep, E)
    totality.check_cache_shape(ctx, rep, E)
    # EST-CAPACITY_NONNEG: the grammar functions assume an accepted atom has capacity >= 0 (a negative capacity later
    # raises ValueError / AttributeError): every non-None result of process_atom_symbol entails it on its own path --
    # for cache hits too -- and what the symbol cache holds does not depend on the table   (C01/V7, C02/T8 shared)
    from rules.C01 import check_atom_postcondition
    from rules.shared import check_history_independence
    check_atom_postcondition(ctx, rep, "EST")
    check_history_independence(ctx, rep, "EST")
    # NW: constraint state untouched
    eff = Effects(ctx)
    setter, table_vars = eff.table_vars()
    dec = ctx.api("decoder")
    bad = []
    for r in eff.writes(dec, include_memo_clear=True):
        tv = [t for t in r.targets if isinstance(t, tuple) and t[0] in ("modvar", "memo")]
        tobj = [t for t in r.targets if t in eff.table_objects()]
        if tv or tobj:
            bad.append(r)
    if setter.qual in E.quals:
        rep.ob("NW", False, setter.node, setter, construct="set_semantic_constraints reachable from decoder",
               witness="the decoder can change the constraint table", key="calls-setter")
    for r in bad:
        f = ctx.db.funcs.get(r.scope)
        rep.ob("NW", False, r.node, f, construct=r.detail, witness="decoder region writes constraint state (%s)" % r.op, nontrivial=True)
    if not bad:
        rep.ob("NW", True, dec.node, dec, construct="writes of the decoder region to the constraint table / its memos",
               how="none (effect analysis over %d functions)" % len(E.quals), key="no-table-write", nontrivial=True)
    if n < 40:
        rep.floor_failures.append("only %d raise sites enumerated in the decoder region (expected >= 40; 100+ on the pinned tree)" % n)
    if nl < 2:
        rep.floor_failures.append("only %d while-loops found in the decoder region (expected >= 2; 4 on the pinned tree -- a loop may legitimately be respelled as a for loop)" % nl)
    rep.analysed.update({"region_functions": len(E.quals), "raise_sites": n, "while_loops": nl, "cycles": nr,
                         "engine_functions": sorted(ec.ran), "engine_errors": ec.errors})
