"""C19 — concurrent translation calls give the same results as serial calls.

Ownership / effect argument over the points-to results, for concurrent encoder/decoder calls with
the constraint table fixed (no concurrent setter), under CPython's atomic dict get/set and
lock-protected lru_cache:

H1 every store / del / augmented assignment / mutator call in the two translation regions targets
   call-owned objects (allocated inside the call, not reachable from module state, class
   attributes, default arguments or memoised results) — except the whitelisted cache of H3
H2 no object is published into module state / class attributes from the regions (other than H3)
H3 the only shared write is the symbol cache: a single subscript store of a value that is immutable
   in shape (tuples / partial objects / scalars, never a mutable container or an instance) and that
   is computed by a function that reads no state that can change
H4 every other shared object touched by the regions is never written after import, anywhere
H5 no `global` rebinding in the regions
H6 no call of a setter of interpreter-wide state (sys.setrecursionlimit, os.environ, warning filters, random.seed, ...)
"""
import ast

from sa import AnalysisError
from sa.db import unparse
from sa.effects import Effects, WRITE_OPS
from sa.pts import IMM, UNK
from rules.shared import require_resolved

REGISTER = True
META = {
    "explanation": "Whole-package allocation-site points-to analysis classifies every object as call-owned or "
                   "retained (reachable from module variables, class attributes, default arguments, memoised "
                   "results). H1/H2/H5 inspect every mutation site and global rebinding reachable from "
                   "encoder()/decoder(); H3 proves the single shared write (symbol cache) idempotent and "
                   "immutable in shape; H4 proves all other shared objects read by the regions are never written "
                   "after import. Since no call can write anything another call can read (except the idempotent "
                   "cache entry), every interleaving yields the serial results.",
    "trusted_base": ["CPython: a single dict subscript store/load is atomic; functools.lru_cache is thread-safe",
                     "external effect table for builtins", "no concurrent call of set_semantic_constraints "
                     "(property: 'with the constraint table fixed')"],
    "assumptions": ["flow-insensitive, allocation-site abstraction: sound over-approximation of aliasing"],
    "level_text": "Static ownership/effect proof obligations H1-H6 (H6: no setter of interpreter-wide state) over all mutation sites reachable from the two "
                  "translators: quantifies over all schedules because it shows absence of shared mutable state "
                  "rather than sampling interleavings.",
    "level_note": "Trusted: CPython GIL atomicity of single dict operations, C lru_cache locking, builtin effect table. "
                  "Decides data-race freedom at object granularity; does not model a concurrent setter call.",
    "technique": "allocation-site points-to + ownership/effect analysis over the resolved call graph",
}

SHAPE_IMMUTABLE = {"tuple", "partial", "func", "class"}


def translation_regions(ctx, eff):
    enc, dec = ctx.api("encoder"), ctx.api("decoder")
    reg = {}
    for f in (enc, dec):
        for q in eff.region(f):
            reg.setdefault(q, set()).add(f.name)
    return reg


def symbol_cache_writes(ctx, eff, region):
    """write records in the region whose targets are retained (candidate H3 sites)"""
    out = []
    for q in region:
        for r in eff.direct_writes(q):
            out.append((q, r))
    return out


def check_cache_store(ctx, eff, rep, f, r, table_vars, rule="H3"):
    """the idempotent-cache conditions for a shared write record r in function f"""
    pt = ctx.pt
    problems = []
    if r.op != "store-sub":
        problems.append("shared write is not a single subscript store (%s)" % r.op)
    tgt = [t for t in r.targets if eff.is_shared_target(t)]
    if any(not (isinstance(t, tuple) and t[0] == "alloc" and pt.objs[t].kind == "dict") for t in tgt):
        problems.append("shared write target is not a dict")
    # shape of stored values
    for i in pt.reach({v for v in r.values if isinstance(v, tuple)}):
        o = pt.objs.get(i)
        if o is None or i[0] != "alloc":
            continue
        if o.kind not in SHAPE_IMMUTABLE:
            problems.append("cached value contains a mutable %s (%s): shared between calls and threads"
                            % (o.kind + ((" of " + o.cls) if o.cls else ""), pt.describe(i)))
    # provenance: every function that allocates part of the stored value must not read changeable state
    alloc_scopes = {i[1] for i in pt.reach({v for v in r.values if isinstance(v, tuple)}) if i[0] == "alloc"}
    for sc in sorted(alloc_scopes):
        g = ctx.db.funcs.get(sc)
        if g is None:
            continue
        reads = eff.module_var_reads(g)
        bad = [v for v in reads if v in table_vars]
        if bad:
            problems.append("cached value is computed by %s, which reads the constraint table %s" % (g.qual, bad))
        for q2 in eff.region(g):
            g2 = ctx.db.funcs[q2]
            if g2.is_lru and any(v in table_vars for v in eff.module_var_reads(g2)):
                problems.append("cached value is computed via memo %s of the constraint table" % g2.qual)
    # the key determines the value: following the value's def-use chains inside f, every chain ends in the key (or in
    # constants / module-level names) -- never in a parameter or input-derived local that the key does not cover
    why = _value_not_from_key(f, r.node)
    if why:
        problems.append(why)
    rep.ob(rule, not problems, r.node, f, construct=r.detail,
           how="single atomic dict store of a shape-immutable value computed from the key alone (racing writers are idempotent)",
           witness="; ".join(sorted(set(problems))) or None, nontrivial=True)
    return not problems


def _value_not_from_key(f, node):
    """for a store ``CACHE[key] = value`` in f: None when every def-use chain of `value` inside f ends in the names of
    `key`; otherwise a description of an input the value reads that the key does not determine"""
    from sa.db import own_nodes
    st = node if isinstance(node, ast.Assign) else None
    if st is None:
        for x in own_nodes(f.node):
            if isinstance(x, ast.Assign) and any(t is node or any(y is node for y in ast.walk(t)) for t in x.targets):
                st = x
    if st is None or not st.targets or not isinstance(st.targets[0], ast.Subscript):
        return None
    key_expr, val_expr = st.targets[0].slice, st.value
    loc = set(f.locals) | set(f.params)

    def names(e):
        return {n.id for n in ast.walk(e) if isinstance(n, ast.Name) and isinstance(n.ctx, ast.Load) and n.id in loc}
    knames = names(key_expr)
    if not knames:
        return None                    # constant key: nothing to cover
    defs = {}
    for x in own_nodes(f.node):
        if isinstance(x, ast.Assign):
            for t in x.targets:
                for n in ast.walk(t):
                    if isinstance(n, ast.Name) and isinstance(n.ctx, ast.Store):
                        defs.setdefault(n.id, set()).update(names(x.value))
        elif isinstance(x, ast.AugAssign) and isinstance(x.target, ast.Name):
            defs.setdefault(x.target.id, set()).update(names(x.value) | {x.target.id})
        elif isinstance(x, (ast.For, ast.comprehension)):
            for n in ast.walk(x.target):
                if isinstance(n, ast.Name):
                    defs.setdefault(n.id, set()).update(names(x.iter))
    seen, work = set(), list(names(val_expr))
    while work:
        nm = work.pop()
        if nm in seen or nm in knames:
            continue
        seen.add(nm)
        if nm in f.params:
            return "the cached value reads the parameter %r, which the key (%s) does not determine: two inputs with one key share an entry" \
                % (nm, unparse(key_expr))
        work.extend(defs.get(nm, ()))
    # a key that is itself derived from a parameter while the value is the (rebound) parameter
    return None


def find_cache_stores(ctx, eff, rep, region, table_vars, rule):
    """shared writes in the region that have the shape of a cache store; each is checked under `rule`"""
    pt = ctx.pt
    whitelisted = set()
    for q, r in symbol_cache_writes(ctx, eff, region):
        f = ctx.db.funcs[q]
        if r.op != "store-sub":
            continue
        tg = [t for t in r.targets if eff.is_shared_target(t)]
        if tg and all(isinstance(t, tuple) and t[0] == "alloc" and pt.objs[t].kind == "dict" for t in tg):
            check_cache_store(ctx, eff, rep, f, r, table_vars, rule)
            whitelisted.add(id(r))  # reported under `rule`, not again as a plain mutation
    return whitelisted


def check_read_through(ctx, eff, rep, region, rule="H3", whole_only=False):
    """A dict that translation code fills while it runs may be observed half-filled by a concurrent call.  That is
    harmless only for a read-through cache: every function of the regions that looks a key up in it also stores that
    same key when it misses (so a miss costs a recomputation, never a different answer), and nobody looks at the dict
    as a whole (emptiness, length, iteration, aliasing)."""
    pt = ctx.pt
    targets = {}
    for q, r in symbol_cache_writes(ctx, eff, region):
        if r.op != "store-sub":
            continue
        for t in r.targets:
            if eff.is_shared_target(t) and isinstance(t, tuple) and t[0] == "alloc" and pt.objs[t].kind == "dict":
                targets.setdefault(t, []).append((q, r))
    n = 0
    for t, recs in targets.items():
        names = {(scope[4:], name) for (scope, name), ids in pt.var.items() if scope.startswith("mod:") and t in ids}
        if not names:
            continue
        for q in sorted(region):
            g = ctx.db.funcs[q]
            uses = []
            parents = {}
            for nd in ast.walk(g.node):
                for c in ast.iter_child_nodes(nd):
                    parents[id(c)] = nd
            for nd in ast.walk(g.node):
                if isinstance(nd, ast.Name) and isinstance(nd.ctx, ast.Load) and nd.id not in g.locals:
                    r_ = ctx.db.resolve_dotted(g.module, nd)
                    if r_ and r_[0] == "global" and (r_[1], r_[2]) in names:
                        uses.append((nd, parents.get(id(nd))))
            if not uses:
                continue
            reads, stores, whole = [], [], []
            for nd, p in uses:
                if isinstance(p, ast.Subscript) and p.value is nd:
                    (stores if isinstance(p.ctx, ast.Store) else reads).append((unparse(p.slice), p))
                elif isinstance(p, ast.Compare) and nd in p.comparators and isinstance(p.ops[0], (ast.In, ast.NotIn)):
                    reads.append((unparse(p.left), p))
                elif isinstance(p, ast.Attribute) and p.attr == "get" and isinstance(parents.get(id(p)), ast.Call) and parents[id(p)].args:
                    reads.append((unparse(parents[id(p)].args[0]), p))
                else:
                    whole.append((nd, p))
            n += 1
            skeys = {k for k, _ in stores}
            probs = []
            for k, p in reads:
                if k not in skeys and not whole_only:
                    probs.append("%s looks up key %s but never fills it: a miss during another call's fill gives a different answer" % (g.name, k))
            for nd, p in whole:
                probs.append("%s uses the dict as a whole (%s): a half-filled dict is observable" % (g.name, unparse(p)[:40] if p is not None else nd.id))
            # a key is stored once per miss: a provisional value stored first (a placeholder, a default) and overwritten later on
            # the same path is visible to a concurrent look-up in between
            if len(stores) > 1 and not whole_only:
                from sa.flow import Forward
                store_nodes = {id(p_): k for k, p_ in stores}
                twice = []

                class Once(Forward):
                    def join(self, a, b):
                        return a | b

                    def simple(self, st, state):
                        node_ = st.value if hasattr(st, "for_node") else st
                        for x in ast.walk(node_):
                            k_ = store_nodes.get(id(x))
                            if k_ is not None:
                                if k_ in state:
                                    twice.append((k_, x))
                                state = state | {k_}
                        return state
                Once(g.node).run(frozenset())
                for k_, x in twice[:1]:
                    probs.append("%s stores key %s twice on one path (line %d is the second store): the first, provisional value can be "
                                 "read by another thread before it is replaced" % (g.name, k_, x.lineno))
            rep.ob(rule, not probs, uses[0][0], g, construct="uses of the run-time filled dict %s in %s" % (sorted(nm for _m, nm in names), g.name),
                   how=("no whole-dict observation (length, emptiness, iteration): what earlier calls stored is visible only through key look-ups"
                        if whole_only else
                        "read-through: every key looked up is stored by the same function on a miss; no whole-dict observation"),
                   witness="; ".join(sorted(set(probs))[:3]) or None, nontrivial=True, key="read-through/%s/%s" % (g.name, "ok" if not probs else "bad"))
    return n


def scan_mutations(ctx, eff, rep, region, whitelisted, rule):
    pt = ctx.pt
    n_sites = 0
    for q in sorted(region):
        f = ctx.db.funcs[q]
        for r in pt.records(q):
            if r.op == "memo-clear":
                rep.ob(rule, False, r.node, f, construct=r.detail,
                       witness="memo cleared inside a translation region: other calls observe the reset")
                continue
            if r.op not in WRITE_OPS or r.op == "rebind-global":
                continue
            n_sites += 1
            if id(r) in whitelisted:
                continue
            if f.name == "__init__" and r.op == "store-attr" and r.detail.startswith(f.posparams[0] + "."):
                rep.ob(rule, True, r.node, f, construct=r.detail,
                       how="constructor initialising its own object, which no other call can reach yet")
                continue
            bad = [t for t in r.targets if eff.is_shared_target(t)]
            ext = [t for t in r.targets if isinstance(t, tuple) and t[0] == "extparam"]
            ok = not bad and not ext
            why = None
            if bad:
                reasons = set()
                for t in bad:
                    reasons |= eff.retained.get(t, {str(t)})
                why = "mutates shared state: %s [%s]" % ("; ".join(pt.describe(t) for t in bad[:3]), "; ".join(sorted(reasons)[:3]))
            elif ext:
                why = "mutates a caller-owned argument object"
            rep.ob(rule, ok, r.node, f, construct=r.detail or r.op,
                   how="all targets are call-owned allocations" if ok else "", witness=why, nontrivial=True)
    return n_sites


def scan_global_rebinds(ctx, eff, rep, region, rule):
    pt = ctx.pt
    n_glob = 0
    for q in sorted(region):
        f = ctx.db.funcs[q]
        for r in pt.records(q):
            if r.op == "rebind-global":
                n_glob += 1
                rep.ob(rule, False, r.node, f, construct="global %s rebound" % r.detail,
                       witness="module variable %s rebound inside a translation region" % r.detail)
    if n_glob == 0:
        rep.ob(rule, True, None, None, construct="global rebinding sites in %d region functions" % len(region),
               loc="selfies/", how="none", key="scan")


def scan_shared_readonly(ctx, eff, rep, region, whitelisted, rule, exempt_scopes=()):
    """shared objects touched by the region are never written after import (anywhere in the package)"""
    pt = ctx.pt
    touched = set()
    for q in region:
        touched |= {i for i in pt.touch.get(q, ()) if i in eff.retained}
    writers = {}
    for r in pt.recs.values():
        if r.op in WRITE_OPS and not r.scope.startswith("mod:") and r.op != "rebind-global":
            for t in r.targets:
                if t in touched:
                    writers.setdefault(t, []).append(r)
    n = 0
    for t in sorted(touched, key=str):
        n += 1
        ws = [r for r in writers.get(t, []) if id(r) not in whitelisted and r.scope not in exempt_scopes]
        ws = [r for r in ws if not _import_time_only(ctx, r.scope)]
        ok = not ws
        rep.ob(rule, ok, None, None, construct="shared %s" % pt.describe(t), loc=_loc_of(ctx, pt, t),
               how="read-only after import", key="shared/" + _stable(pt, ctx, t),
               witness=None if ok else "written after import at %s" % ", ".join(
                   "%s (%s)" % (ctx.db.funcs[r.scope].loc(r.node), r.detail) for r in ws[:3]), nontrivial=True)
    return n


def run(ctx, rep):
    eff = Effects(ctx)
    setter, table_vars = eff.table_vars()
    region = translation_regions(ctx, eff)
    rep.analysed["region_functions"] = len(region)
    require_resolved(ctx, region)
    if len(region) < 50:
        raise AnalysisError("translation regions unexpectedly small (%d functions)" % len(region))
    whitelisted = find_cache_stores(ctx, eff, rep, region, table_vars, "H3")
    check_read_through(ctx, eff, rep, region, "H3")
    n_sites = scan_mutations(ctx, eff, rep, region, whitelisted, "H1")
    rep.floor("H1", 40, "mutation sites in the translation regions")
    scan_global_rebinds(ctx, eff, rep, region, "H5")
    # H6: interpreter-wide state (recursion limit, trace hooks, environment ...) is not package state, so the points-to
    # rules above do not see it: an explicit who-may-call rule
    from rules.shared import check_no_process_global_writes
    check_no_process_global_writes(ctx, rep, region, "H6")
    n_touched = scan_shared_readonly(ctx, eff, rep, region, whitelisted, "H4")
    rep.floor("H4", 8, "shared tables read by the translators")
    rep.analysed.update({"mutation_sites": n_sites, "shared_objects_touched": n_touched,
                         "whitelisted_cache_stores": len(whitelisted)})
    if not whitelisted:
        rep.note("no shared cache store found in the regions (symbol cache removed?)")


def _module_level_cache(pt, t):
    return isinstance(t, tuple) and t[0] == "alloc"


def _import_time_only(ctx, scope):
    """is function `scope` reachable only from module-level code (a table builder)?"""
    cache = ctx.cache.setdefault("import_time_only", {})
    if scope in cache:
        return cache[scope]
    f = ctx.db.funcs.get(scope)
    if f is None:
        cache[scope] = False
        return False
    callers = set()
    for g in ctx.db.funcs.values():
        for s in ctx.cg.sites(g):
            if f in s.callees or f in s.hof:
                callers.add(g.qual)
    api = {r[1].qual for r in ctx.db.public_api().values() if r[0] == "func"}
    res = (not callers) and (f.qual not in api) and not f.is_method
    cache[scope] = res
    return res


def _loc_of(ctx, pt, t):
    o = pt.objs.get(t)
    if o is not None and o.site is not None:
        scope, node = o.site
        if scope.startswith("mod:"):
            m = ctx.db.modules.get(scope[4:])
            return "%s:%d" % (m.rel if m else scope, getattr(node, "lineno", 0))
        f = ctx.db.funcs.get(scope)
        if f is not None:
            return f.loc(node)
    return ""


def _stable(pt, ctx, t):
    """a key for a shared object that does not depend on line numbers: the module variables that hold it"""
    names = sorted("%s.%s" % (sc[4:], nm) for (sc, nm), ids in pt.var.items() if sc.startswith("mod:") and t in ids)
    if names:
        return ",".join(names)
    o = pt.objs.get(t)
    return "%s-in-%s" % (o.kind if o else "?", t[1] if isinstance(t, tuple) else t)
