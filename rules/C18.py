"""C18 — compatible=True is a conservative extension for pre-v2 symbols.

modernize_symbol is a per-token pure map, so the property reduces to facts about that map:
M1 folded legacy table == specification (21 entries); every value is a modern branch / ring symbol
M2 identity on modern symbols: no legacy key is a modern symbol; no modern symbol ends with "expl]"; on the path
   where neither rewrite applies the argument is returned unchanged
M3 the "expl" path rewrites through the SMILES atom reader and the standard printer: result is
   "[" + bond prefix + standard spelling + "]", and every such result is in the decoder's atom language
M4 without the flag every legacy symbol reaches DecoderError: no legacy key is accepted by a dispatch case
M5 the flag reaches only the per-token rewrite and the warning; it is never reassigned; every fragment gets it
"""
import ast

from sa import AnalysisError
from sa.db import own_nodes, unparse
from sa.sym import Engine, Hooks, Num, Con, Tup, Obj, Unk, Str, vkey
from sa.strlang import IntFacts
from sa import reglang as RL
from rules import symlang, decmodel
from spec import tables as SPEC

REGISTER = True
META = {
    "explanation": "The legacy table is folded and compared with CHANGELOG v2.0.0; identity of modernize_symbol on modern "
                   "symbols and rejection of legacy symbols without the flag are decided at language level (automata for the "
                   "decoder's atom pattern, the dispatch predicates and the table keys); the 'expl' rewrite is summarised by "
                   "the symbolic engine and its output language included in the decoder's; the flag's uses are classified by "
                   "def-use.",
    "trusted_base": ["spec/tables.py legacy table (CHANGELOG v2.0.0)", "sa.reglang regex/predicate semantics"],
    "assumptions": [],
    "level_text": "Static: table folding vs specification, language-level identity/rejection, symbolic summary of the rewrite, "
                  "def-use of the flag. All strings, all L, M in 1..3.",
    "level_note": "M6 shares the cache-shape rule of C08 (a rejected symbol is rejected every time). Decides the per-token map; combined with C13/N1 (single token source) this gives the string-level statement.",
    "technique": "constant folding + regular-language disjointness/inclusion + symbolic summary + def-use classification",
}


def dispatch_predicates(ctx, D):
    """tests of the derivation loop's symbol dispatch, in order, with the name of the symbol variable"""
    loops = [n for n in D.node.body if isinstance(n, ast.While)]
    if not loops:
        raise AnalysisError("derivation loop not found")
    chain = [n for n in loops[0].body if isinstance(n, ast.If) and n.orelse]
    if not chain:
        raise AnalysisError("symbol dispatch chain not found")
    tests = []
    cur = chain[0]
    import copy
    from rules.shared import resolve_local

    def named(test):
        """a predicate written on a local that names a slice of the symbol (kind = symbol[-4:-2]) is the predicate on the slice"""
        test = copy.deepcopy(test)
        for n in ast.walk(test):
            for fld, val in ast.iter_fields(n):
                vals = val if isinstance(val, list) else [val]
                for j, x in enumerate(vals):
                    if isinstance(x, ast.Name) and isinstance(x.ctx, ast.Load) and x.id in D.locals and x.id not in D.params:
                        e = resolve_local(D, x)
                        if e is not x and isinstance(e, ast.Subscript) and isinstance(e.slice, ast.Slice) and isinstance(e.value, ast.Name):
                            e = ast.copy_location(copy.deepcopy(e), x)
                            if isinstance(val, list):
                                val[j] = e
                            else:
                                setattr(n, fld, e)
        return test
    while True:
        tests.append(named(cur.test))
        if len(cur.orelse) == 1 and isinstance(cur.orelse[0], ast.If):
            cur = cur.orelse[0]
        else:
            break
    return tests


def fold_pred(ctx, D, test, symvar, value):
    from sa.fold import Frame, FoldError, FoldRaise
    fo = ctx.fold
    fr = Frame(fo, D.module, fo.module(D.module.name), local={symvar: value}, func=None, is_module=False)
    try:
        return bool(fr.eval(test))
    except (FoldError, FoldRaise) as e:
        raise AnalysisError("dispatch predicate %s does not fold: %s" % (unparse(test), e))


def pred_automaton(test, symvar):
    """automaton of strings satisfying a dispatch predicate of the forms lit == x[-a:-b] / lit in x"""
    A = ("set", frozenset(RL.ALPHABET))
    if isinstance(test, ast.Compare) and len(test.ops) == 1:
        l, r = test.left, test.comparators[0]
        if isinstance(test.ops[0], ast.In) and isinstance(l, ast.Constant) and isinstance(r, ast.Name) and r.id == symvar:
            return RL.compile_regex(("cat", [("rep", A, 0, None), ("lit", l.value), ("rep", A, 0, None)]))
        if isinstance(test.ops[0], ast.Eq):
            if isinstance(r, ast.Constant):
                l, r = r, l
            if isinstance(l, ast.Constant) and isinstance(r, ast.Subscript) and isinstance(r.value, ast.Name) and r.value.id == symvar \
                    and isinstance(r.slice, ast.Slice):
                lo, hi = r.slice.lower, r.slice.upper

                def neg(x):
                    if isinstance(x, ast.UnaryOp) and isinstance(x.op, ast.USub) and isinstance(x.operand, ast.Constant):
                        return x.operand.value
                    return None
                a, b = neg(lo), neg(hi) if hi is not None else 0
                if a is not None and b is not None and a - b == len(l.value):
                    return RL.compile_regex(("cat", [("rep", A, 0, None), ("lit", l.value)] + [A] * b))
    raise AnalysisError("dispatch predicate form not supported: %s" % unparse(test))


def run(ctx, rep):
    fo = ctx.fold
    mod = ctx.fn("selfies.compatibility.modernize_symbol")
    # ---- M1
    table = None
    for n in own_nodes(mod.node):
        if isinstance(n, ast.Compare) and isinstance(n.ops[0], ast.In) and isinstance(n.comparators[0], ast.Name):
            r = ctx.db.resolve_global(mod.module, n.comparators[0].id)
            if r and r[0] == "global":
                table = (r[1], r[2])
    if table is None:
        # spelled  TABLE.get(symbol)  /  TABLE[symbol]
        for n in own_nodes(mod.node):
            nm = None
            if isinstance(n, ast.Call) and isinstance(n.func, ast.Attribute) and n.func.attr == "get" and isinstance(n.func.value, ast.Name) and n.args:
                nm = n.func.value.id
            elif isinstance(n, ast.Subscript) and isinstance(n.value, ast.Name) and isinstance(n.ctx, ast.Load) and not isinstance(n.slice, ast.Slice):
                nm = n.value.id
            if nm is not None and nm not in mod.locals:
                r = ctx.db.resolve_global(mod.module, nm)
                if r and r[0] == "global":
                    try:
                        if isinstance(fo.global_value(r[1], r[2]), dict):
                            table = (r[1], r[2])
                    except Exception:
                        pass
    if table is None:
        raise AnalysisError("update table of modernize_symbol not found")
    got = fo.global_value(*table)
    want = SPEC.legacy_table()
    ring = __import__("rules.symlang", fromlist=["x"]).symbol_table(ctx, "ring")
    branch = __import__("rules.symlang", fromlist=["x"]).symbol_table(ctx, "branch")
    for k in sorted(set(got) | set(want)):
        ok = got.get(k) == want.get(k)
        rep.ob("M1", ok, None, None, loc="selfies/compatibility.py", construct="legacy entry %s" % k, how="equals CHANGELOG mapping %s" % want.get(k),
               witness=None if ok else "table maps %r to %r, documented %r" % (k, got.get(k), want.get(k)), key="entry/" + k, nontrivial=not ok)
    for k, v in sorted(got.items()):
        ok = v in ring or v in branch
        rep.ob("M1", ok, None, None, loc="selfies/compatibility.py", construct="modern equivalent %s" % v, how="is a key of the modern ring/branch tables",
               witness=None if ok else "replacement %r of %r is not a modern symbol" % (v, k), key="value/" + k)
    rep.floor("M1", 42)

    # ---- M2 identity on modern symbols
    dec = symlang.dec_atom(ctx)
    modern_finite = set(ring) | set(branch) | {SPEC.EPSILON, SPEC.NOP}
    clash = sorted(k for k in got if k in modern_finite or dec["dfa"].accepts(k))
    rep.ob("M2", not clash, None, None, loc="selfies/compatibility.py", construct="legacy keys vs modern symbols", how="disjoint",
           witness=None if not clash else "legacy key(s) %s are also modern symbols: compatible=True changes their meaning" % clash[:3],
           key="keys-disjoint", nontrivial=True)
    # the suffix test of the 'expl' path
    suffix = None
    for n in own_nodes(mod.node):
        c = None
        if isinstance(n, ast.If) and isinstance(n.test, ast.Compare) and isinstance(n.test.left, ast.Subscript) \
                and isinstance(n.test.left.slice, ast.Slice) and len(n.test.ops) == 1 and isinstance(n.test.ops[0], (ast.Eq, ast.NotEq)):
            c = n.test.comparators[0]                                  # symbol[-5:] == "expl]"
        elif isinstance(n, ast.If):
            t_ = n.test.operand if isinstance(n.test, ast.UnaryOp) and isinstance(n.test.op, ast.Not) else n.test
            if isinstance(t_, ast.Call) and isinstance(t_.func, ast.Attribute) and t_.func.attr == "endswith" and len(t_.args) == 1:
                c = t_.args[0]                                         # symbol.endswith("expl]")
        if c is not None:
            if isinstance(c, ast.Constant) and isinstance(c.value, str):
                suffix = c.value
            elif isinstance(c, ast.Name) and c.id not in mod.locals:
                try:
                    v = ctx.fold.global_value(mod.module.name, c.id)      # a module-level string constant
                except Exception:
                    v = None
                if isinstance(v, str):
                    suffix = v
    if suffix is None:
        raise AnalysisError("'expl]' suffix test not found")
    suf = RL.compile_regex(("cat", [("rep", ("set", frozenset(RL.ALPHABET)), 0, None), ("lit", suffix)]))
    inter = dec["dfa"].intersect(suf)
    w = inter.witness()
    fin = sorted(s for s in modern_finite if s.endswith(suffix))
    ok = w is None and not fin
    rep.ob("M2", ok, mod.node, mod, construct="modern symbols ending with %r" % suffix, how="none (language intersection empty)",
           witness=None if ok else "modern symbol %r takes the legacy rewrite path" % (w or fin[0]), key="no-modern-expl", nontrivial=True)
    # engine summary of modernize_symbol
    reader = ctx.fn("selfies.utils.smiles_utils.smiles_to_atom")
    printer = ctx.fn("selfies.utils.smiles_utils.atom_to_smiles")
    reader_args = []

    class H(IntFacts):
        def on_call(self, eng, fr, node, callee, args, kwargs, st):
            if callee is reader:
                reader_args.append((args[0] if args else None, st))
                return [(st, Con(None)), (st, Obj(("legacy-atom",), "selfies.mol_graph.Atom"))]
            if callee is printer:
                br = kwargs.get("brackets", args[1] if len(args) > 1 else Con(True))
                return Unk(("std-spelling", repr(getattr(br, "value", None))))
            return IntFacts.on_call(self, eng, fr, node, callee, args, kwargs, st)
    h = H(ctx)
    eng = Engine(ctx, h)
    h.bind(eng)
    inner = symlang.enc_atom_inner(ctx)
    h.sl.term_language[("std-spelling", "False")] = inner["dfa"]
    p = mod.posparams[0]
    fr = eng.run_function(mod, {p: Unk(("symbol",))})
    ident = rewr = 0
    for st, v in fr.returns:
        intab = [val for k, val in st.atoms.items() if k[0] == "in" and k[1] == ("unk", ("symbol",))]
        if isinstance(v, Unk) and v.term == ("symbol",):
            ident += 1
            continue
        if isinstance(v, Unk) and isinstance(v.term, tuple) and v.term[0] in ("lookup", "index"):
            continue   # table replacement
        if isinstance(v, Str):
            rewr += 1
            parts = v.parts
            probs = []
            if not (parts and parts[0] == ("lit", "[") and parts[-1] == ("lit", "]")):
                probs.append("rewritten symbol is not bracketed")
            # M3 inclusion
            try:
                d = h.sl.lang(v, st)
                okk, w = d.included_in(dec["dfa"])
                if not okk:
                    probs.append("rewritten legacy atom %r is not accepted by the decoder" % w)
            except Exception as e:
                probs.append("cannot derive the language of the rewritten symbol: %s" % e)
            rep.ob("M3", not probs, mod.node, mod, construct="'expl' rewrite result", how="'[' + prefix + standard spelling + ']' ⊆ decoder atom language",
                   witness="; ".join(probs) or None, nontrivial=True, key="expl/" + ("ok" if not probs else probs[0][:40]))
            continue
        rep.ob("M2", False, mod.node, mod, construct="return value %r" % (v,), witness="modernize_symbol returns something other than the symbol, a table entry or a rewritten atom")
    rep.ob("M2", ident > 0, mod.node, mod, construct="unchanged path", how="symbols that match neither rewrite are returned as they are",
           witness=None if ident else "no path returns the symbol unchanged", key="identity-path", nontrivial=True)
    for st, n, exc in fr.raises:
        rep.ob("M2", False, n, mod, construct="%s in modernize_symbol" % exc, witness="modernize_symbol can raise %s outside the tokenizer's handler types" % exc) \
            if exc not in ("ValueError", "IndexError") else None
    if not rewr:
        rep.ob("M3", False, mod.node, mod, construct="'expl' rewrite", witness="no rewriting path for [..expl] atoms found", key="expl/missing")
    # M3b: what is handed to the atom reader is "[" + the symbol's own characters between its bond prefix and the suffix + "]":
    # one constant-bounds slice of the argument itself, the upper bound cutting exactly the suffix (a character-set strip such
    # as rstrip("expl]") also eats the end of the element: [Seexpl] -> S)
    n_ra = 0
    for a, st in reader_args:
        n_ra += 1
        probs = []
        t = None
        if isinstance(a, Str) and len(a.parts) == 3 and a.parts[0] == ("lit", "[") and a.parts[2] == ("lit", "]") and a.parts[1][0] == "sym":
            t = a.parts[1][1]
        o = eng.origin.get(t) if t is not None else None
        if o is None and isinstance(t, tuple) and len(t) == 2 and t[0] == "unk":
            o = eng.origin.get(t[1])
        if not (o and o[0] == "slice" and isinstance(o[1], Unk) and o[1].term == ("symbol",)):
            probs.append("the text handed to the atom reader is not '[' + one slice of the symbol itself + ']'")
        else:
            bounds = o[4]
            lo = bounds[0] if o[2] else None
            hi = bounds[-1] if o[3] else None
            from sa.lin import ge as _ge, le as _le
            ok_hi = isinstance(hi, Num) and hi.lin.is_const() and int(hi.lin.k) == -len(suffix)
            ok_lo = isinstance(lo, Num) and ((lo.lin.is_const() and int(lo.lin.k) in (1, 2)) or
                                             (st.entails(_ge(lo.lin, 1)) and st.entails(_le(lo.lin, 2))))
            if not ok_hi:
                probs.append("the slice handed to the atom reader does not end exactly in front of %r" % suffix)
            elif not ok_lo and isinstance(lo, Num) and lo.lin.is_const():
                probs.append("the slice handed to the atom reader does not start behind '[' and the optional bond character")
            elif not ok_lo:
                rep.note("M3b: the start of the atom text handed to the reader is not a constant (%s): start not decided" % (lo,))
        rep.ob("M3", not probs, mod.node, mod, construct="text handed to the SMILES atom reader on the 'expl' path", how="'[' + symbol[1|2 : -%d] + ']'" % len(suffix),
               witness="; ".join(probs) or None, nontrivial=True, key="expl/reader-arg/" + ("ok" if not probs else "bad"))
    if rewr and not n_ra:
        rep.ob("M3", False, mod.node, mod, construct="'expl' rewrite", witness="the atom reader is never called on the rewriting path", key="expl/reader-arg/missing")
    # the rewrite goes through the SMILES reader and the standard printer
    callees = {ctx.db.funcs[q].name for q in ctx.cg.region(mod)}
    ok = {"smiles_to_atom", "atom_to_smiles"} <= callees
    rep.ob("M3", ok, mod.node, mod, construct="rewrite uses the SMILES atom reader and the standard printer", how="calls smiles_to_atom and atom_to_smiles",
           witness=None if ok else "legacy atoms are not standardised through smiles_to_atom / atom_to_smiles", key="expl/through-reader-printer")

    # modernize_symbol is a pure per-token map: no writes to, and no reads of, state that can change
    from sa.effects import Effects
    eff = Effects(ctx)
    ws = eff.writes(mod, include_memo_clear=True)
    memo = [g.qual for q in eff.region(mod) for g in [ctx.db.funcs[q]] if g.is_lru]
    mut_reads = []
    for (m_, n_), sites_ in eff.module_var_reads(mod).items():
        for i in ctx.pt.v("mod:" + m_, n_):
            if isinstance(i, tuple) and i[0] == "alloc":
                for r in ctx.pt.recs.values():
                    if i in r.targets and not r.scope.startswith("mod:") and r.op != "memo-clear":
                        from rules.C19 import _import_time_only
                        if not _import_time_only(ctx, r.scope):
                            mut_reads.append("%s.%s" % (m_, n_))
    ok = not ws and not mut_reads
    rep.ob("M2", ok, mod.node, mod, construct="modernize_symbol is a pure function of the token",
           how="no write to module state, no read of state that changes after import",
           witness=None if ok else "the per-token rewrite depends on / changes process state (%s): the result for a token depends on call history"
           % ("; ".join(sorted(set([r.detail for r in ws] + mut_reads)))[:200]), key="pure-map", nontrivial=True)

    # ---- M4 rejection without the flag
    roles = decmodel.find_roles(ctx)
    D = roles["D"]
    tests = dispatch_predicates(ctx, D)
    # symbol variable: the Name used in the tests
    names = [n.id for t in tests for n in ast.walk(t) if isinstance(n, ast.Name)]
    symvar = max(set(names), key=names.count)
    procs = []
    loops = [n for n in D.node.body if isinstance(n, ast.While)]
    cur = [n for n in loops[0].body if isinstance(n, ast.If) and n.orelse][0]
    bodies = []
    while True:
        bodies.append(cur.body)
        if len(cur.orelse) == 1 and isinstance(cur.orelse[0], ast.If):
            cur = cur.orelse[0]
        else:
            bodies.append(cur.orelse)
            break

    def case_kind(body):
        src = " ".join(unparse(x) for x in body)
        for nm, kind in (("process_branch_symbol", "branch"), ("process_ring_symbol", "ring"), ("process_atom_symbol", "atom")):
            if nm in src:
                return kind
        return "other"
    kinds = [case_kind(b) for b in bodies]
    for k in sorted(want):
        taken = None
        for i, t in enumerate(tests):
            if fold_pred(ctx, D, t, symvar, k):
                taken = i
                break
        kind = kinds[taken] if taken is not None else kinds[-1]
        if kind == "branch":
            ok = k not in branch
        elif kind == "ring":
            ok = k not in ring
        elif kind == "atom":
            ok = not dec["dfa"].accepts(k)
        else:
            ok = False
        rep.ob("M4", ok, None, None, loc="selfies/decoder.py", construct="legacy symbol %s without the flag" % k,
               how="dispatched to the %s case, which rejects it" % kind, key="reject/" + k, nontrivial=True,
               witness=None if ok else "legacy symbol %s is accepted by the %s case without compatible=True" % (k, kind))
    # legacy atoms [..expl]: never accepted by the atom pattern (M2 no-modern-expl) and not by another case
    for t, kind in zip(tests, kinds):
        if kind == "other":
            a = pred_automaton(t, symvar)
            w = a.intersect(suf).witness()
            # such strings exist (e.g. '[epsexpl]') only through the over-accepting [epsilon] case: C02/T7b known finding
            rep.note("symbols ending in %r that satisfy the non-table dispatch test %s exist (e.g. %r); see C02 finding F10" % (suffix, unparse(t), w)) if w else None
    # "dispatched to the X case, which rejects it" holds in every grammar state only if that case validates the symbol on
    # every path (shared with C02/T8): no path consumes a ring / branch shaped symbol without its processor
    from rules.C02 import check_validated_dispatch
    mm = decmodel.extract(ctx)
    check_validated_dispatch(rep, mm, decmodel.iterations(mm), "M4")
    rep.floor("M4", 22)

    # ---- M5 def-use of the flag
    dec_f = ctx.api("decoder")
    if "compatible" not in dec_f.params:
        raise AnalysisError("decoder has no 'compatible' parameter")
    check_flag(ctx, rep, dec_f, "compatible", mod, set())
    # every call of the per-token rewrite in the decoder region is guarded by the flag
    n_calls = 0
    for q in ctx.cg.region(dec_f):
        g = ctx.db.funcs[q]
        pm = {}
        for n in own_nodes(g.node):
            for c in ast.iter_child_nodes(n):
                pm[id(c)] = n
        for st in ctx.cg.sites(g):
            if mod in st.callees and g is not mod:
                n_calls += 1
                cur = st.node
                guarded = False
                while id(cur) in pm:
                    p_ = pm[id(cur)]
                    if isinstance(p_, ast.If) and isinstance(p_.test, ast.Name) and any(cur is x or any(y is cur for y in ast.walk(x)) for x in p_.body):
                        guarded = guarded or (p_.test.id in g.params)
                    if isinstance(p_, ast.IfExp) and isinstance(p_.test, ast.Name) and p_.body is cur:
                        guarded = guarded or (p_.test.id in g.params)
                    cur = p_
                rep.ob("M5", guarded, st.node, g, construct="call of modernize_symbol", how="executed only under the compatible flag",
                       witness=None if guarded else "legacy symbols are rewritten even without compatible=True", key="rewrite-guarded/" + g.name, nontrivial=True)
    if not n_calls:
        rep.ob("M5", False, dec_f.node, dec_f, construct="per-token rewrite", witness="modernize_symbol is never applied: compatible=True has no effect", key="rewrite-missing")
    rep.floor("M5", 2)
    # ---- M6: "without the flag such strings are rejected with DecoderError": every time, not only the first -- what the
    # symbol cache stores has the shape its readers unpack, never the None of a rejected (e.g. legacy) symbol (C08/EST shared)
    from sa.core import Report
    from rules import C08
    from rules.shared import import_obligations
    sub = Report("C18")
    C08.run(ctx, sub)
    keep = Report("C18")
    keep.obs = [o for o in sub.obs if o.rule == "EST" and "CACHE_SHAPE" in o.key]
    if not keep.obs:
        raise AnalysisError("no symbol-cache store found in the decoder region (anchor of M6 lost)")
    import_obligations(rep, keep, {"EST": "M6"})
    rep.analysed.update({"legacy_entries": len(got), "dispatch_cases": kinds})


def check_flag(ctx, rep, f, name, mod, seen):
    if (f.qual, name) in seen:
        return
    seen.add((f.qual, name))
    parents = {}
    for n in own_nodes(f.node):
        for c in ast.iter_child_nodes(n):
            parents[id(c)] = n
    sites = {id(s.node): s for s in ctx.cg.sites(f)}
    for n in own_nodes(f.node):
        if isinstance(n, ast.Name) and n.id == name and isinstance(n.ctx, (ast.Store, ast.Del)):
            rep.ob("M5", False, n, f, construct="assignment to %s" % name, witness="the compatible flag is reassigned: later tokens/fragments are treated differently",
                   key="%s/reassigned" % f.name, nontrivial=True)
        if not (isinstance(n, ast.Name) and n.id == name and isinstance(n.ctx, ast.Load)):
            continue
        p = parents.get(id(n))
        ok, why = False, None
        if isinstance(p, ast.If) and p.test is n:
            # body must be the warning, or the per-token rewrite x = modernize_symbol(x)
            body_ok = True
            kinds = []
            for st in p.body:
                if isinstance(st, ast.Assign) and isinstance(st.value, ast.Call):
                    s = sites.get(id(st.value))
                    if s and mod in s.callees and len(st.value.args) == 1 and isinstance(st.targets[0], ast.Name) \
                            and isinstance(st.value.args[0], ast.Name) and st.value.args[0].id == st.targets[0].id:
                        kinds.append("rewrite")
                        continue
                if isinstance(st, ast.Assign) and isinstance(st.value, (ast.Constant, ast.BinOp, ast.JoinedStr)):
                    kinds.append("msg")
                    continue
                if isinstance(st, ast.Expr) and isinstance(st.value, ast.Call) and unparse(st.value.func) in ("warnings.warn", "warn"):
                    kinds.append("warn")
                    continue
                if isinstance(st, ast.Pass):
                    continue
                body_ok = False
                why = "statement %r is controlled by the compatible flag" % unparse(st)[:60]
            ok = body_ok and not p.orelse
            if p.orelse and body_ok:
                why = "an else-branch is controlled by the compatible flag"
        elif isinstance(p, ast.IfExp) and p.test is n:
            # <rewrite(x)> if flag else x
            b, o = p.body, p.orelse
            s_ = sites.get(id(b)) if isinstance(b, ast.Call) else None
            if s_ and mod in s_.callees and len(b.args) == 1 and unparse(b.args[0]) == unparse(o):
                ok = True
            else:
                why = "conditional expression on the flag is not `modernize_symbol(x) if flag else x`"
        elif isinstance(p, ast.Call) and n in p.args or isinstance(p, ast.keyword):
            call = p if isinstance(p, ast.Call) else parents.get(id(p))
            s = sites.get(id(call))
            if s and s.callees:
                ok = True
                for g in s.callees:
                    pos = g.posparams[1:] if g.is_method else g.posparams
                    if isinstance(p, ast.keyword):
                        pn = p.arg
                    else:
                        i = call.args.index(n)
                        pn = pos[i] if i < len(pos) else None
                    if pn:
                        check_flag(ctx, rep, g, pn, mod, seen)
            else:
                why = "flag passed to %s" % unparse(call.func)
        else:
            why = "flag used in %s" % (unparse(p)[:60] if p is not None else "?")
        rep.ob("M5", ok, n, f, construct="use of %s in %s" % (name, f.name), how="guards only the warning / the per-token rewrite, or is forwarded",
               witness=why, nontrivial=True)
