"""C07 — any string over the semantically robust alphabet is a valid molecule (clause level).

A1 inclusion: { "[" b k "]" : b a bond prefix of the alphabet builder, k a key the setter's validation accepts,
   k != "?" } ⊆ the decoder's atom language
A2 fixed part: the alphabet always contains the sixteen index symbols, all nine branch symbols and
   [RingL], [=RingL] (L = 1..3), and each of them is a symbol of the decoder
A3 filter: an atom symbol with a prefix of order m is included iff m <= capacity and the key is not "?"
A4 the alphabet memo is cleared on every table change
A5 the returned set is not an alias of retained state
Not decided here: "every finite sequence decodes to a molecule obeying the table" (= C01 + C08 once A1 holds).
"""
import ast

from sa import AnalysisError
from sa.db import unparse, own_nodes
from sa.effects import Effects
from sa.lin import Lin, ge, le, gt, eq
from sa.sym import Engine, Hooks, Num, Con, Tup, Obj, Unk, Str, vkey, assume
from sa import reglang as RL
from rules import symlang
from rules.shared import memo_readers, MemoFlow, check_fresh_return
from spec import tables as SPEC

REGISTER = True
META = {
    "explanation": "The language of constraint keys accepted by set_semantic_constraints is built as an automaton from its "
                   "validation predicate (string predicates / regex), extended with the alphabet builder's bond prefixes and "
                   "brackets, and checked for inclusion in the decoder's atom language (A1). The builder's fixed symbols are "
                   "collected by partial evaluation and compared with the specification (A2); the inclusion filter is "
                   "compared with 'order <= capacity and key != ?' on all paths of the builder loop (A3); memo invalidation "
                   "and aliasing by dataflow / points-to (A4, A5).",
    "trusted_base": ["str predicate semantics as modelled (isnumeric/isdigit/isascii over the symbolic alphabet)",
                     "sa.reglang regex semantics", "spec/tables.py"],
    "assumptions": [],
    "level_text": "Static language inclusion (accepted keys -> decodable symbols) for all accepted tables, plus structural "
                  "checks of the alphabet builder.",
    "level_note": "A6 re-runs the valence lemmas of C01 (V0-V7) for the 'obeys the table' clause. Clause-level; decoding of arbitrary sequences over the alphabet is delegated to C01/C08. Known finding F1 (A5).",
    "technique": "regular-language inclusion from predicate abstraction + partial evaluation of the alphabet builder + points-to",
}

BC = "selfies.bond_constraints."


def pred_language(ctx, f, var, exprs):
    """language of strings `var` satisfying the conjunction of predicate expressions (over-approximation)"""
    sig = RL.any_string()
    A = set(RL.ALPHABET)
    for e in exprs:
        d = None
        if isinstance(e, ast.Call) and isinstance(e.func, ast.Attribute) and isinstance(e.func.value, ast.Name) \
                and e.func.value.id == var and not e.args:
            m = e.func.attr
            if m == "isnumeric":
                d = RL.compile_regex(("rep", ("set", frozenset(RL.DIGITS | {"NO"})), 1, None))
            elif m == "isdigit":
                d = RL.compile_regex(("rep", ("set", frozenset(RL.DIGITS | {"NO"})), 1, None))
            elif m == "isdecimal":
                d = RL.compile_regex(("rep", ("set", frozenset(RL.DIGITS)), 1, None))
            elif m == "isascii":
                d = RL.compile_regex(("rep", ("set", frozenset(chr(i) for i in range(128))), 0, None))
            elif m == "isalpha":
                d = RL.compile_regex(("rep", ("set", frozenset(RL.LOWER | RL.UPPER | {"LL", "LU", "LO"})), 1, None))
        elif isinstance(e, ast.Compare) and len(e.ops) == 1 and isinstance(e.left, ast.Subscript) and isinstance(e.left.value, ast.Name) \
                and e.left.value.id == var and isinstance(e.left.slice, ast.Constant) and e.left.slice.value == 0 \
                and isinstance(e.comparators[0], ast.Constant) and isinstance(e.comparators[0].value, str) and len(e.comparators[0].value) == 1:
            ch = e.comparators[0].value
            rest = ("rep", ("set", frozenset(A)), 0, None)
            if isinstance(e.ops[0], ast.NotEq):
                d = RL.compile_regex(("cat", [("set", frozenset(A - {ch})), rest]))
            elif isinstance(e.ops[0], ast.Eq):
                d = RL.compile_regex(("cat", [("lit", ch), rest]))
        elif isinstance(e, ast.Compare) and len(e.ops) == 1 and isinstance(e.left, ast.Name) and e.left.id == var \
                and isinstance(e.comparators[0], ast.Constant) and isinstance(e.comparators[0].value, str):
            if isinstance(e.ops[0], ast.NotEq):
                d = RL.any_string().minus(RL.lit(e.comparators[0].value))
            elif isinstance(e.ops[0], ast.Eq):
                d = RL.lit(e.comparators[0].value)
        if d is None:
            raise AnalysisError("unsupported string predicate in the key validation: %s" % unparse(e))
        sig = sig.intersect(d)
    return sig


def conjuncts(e):
    if isinstance(e, ast.BoolOp) and isinstance(e.op, ast.And):
        out = []
        for v in e.values:
            out.extend(conjuncts(v))
        return out
    return [e]


class _Norm:
    """a function seen through a normalised copy of its syntax tree: module-level string constants are their literals, and a
    tuple assignment from a display of the same length is the sequence of its single assignments (``a, b = (x, y)``)"""

    def __init__(self, f):
        import copy
        from sa.guards import module_str_consts
        self._f = f
        consts = module_str_consts(f)

        class T(ast.NodeTransformer):
            def visit_Name(self, node):
                if isinstance(node.ctx, ast.Load) and node.id in consts:
                    return ast.copy_location(ast.Constant(value=consts[node.id]), node)
                return node

            def generic_visit(self, node):
                node = ast.NodeTransformer.generic_visit(self, node)
                for fld in ("body", "orelse", "finalbody"):
                    blk = getattr(node, fld, None)
                    if isinstance(blk, list) and blk and isinstance(blk[0], ast.stmt):
                        new = []
                        for st in blk:
                            if isinstance(st, ast.Assign) and len(st.targets) == 1 and isinstance(st.targets[0], (ast.Tuple, ast.List)) \
                                    and isinstance(st.value, (ast.Tuple, ast.List)) and len(st.targets[0].elts) == len(st.value.elts) \
                                    and all(isinstance(t, ast.Name) for t in st.targets[0].elts) \
                                    and not ({t.id for t in st.targets[0].elts} & {n.id for v in st.value.elts for n in ast.walk(v) if isinstance(n, ast.Name)}):
                                for t, v in zip(st.targets[0].elts, st.value.elts):
                                    new.append(ast.copy_location(ast.Assign(targets=[t], value=v), st))
                            else:
                                new.append(st)
                        setattr(node, fld, new)
                return node
        self.node = T().visit(copy.deepcopy(f.node))
        ast.fix_missing_locations(self.node)

    def __getattr__(self, name):
        return getattr(self._f, name)


def key_language(ctx, setter):
    """automaton of the dictionary keys that pass the setter's validation"""
    E = symlang.elements(ctx)
    def val_loops(f):
        ls = [n for n in own_nodes(f.node) if isinstance(n, ast.For) and isinstance(n.iter, ast.Call)
              and isinstance(n.iter.func, ast.Attribute) and n.iter.func.attr in ("items", "keys")]
        return ls or [n for n in own_nodes(f.node) if isinstance(n, ast.For)]
    loops = val_loops(setter)
    if len(loops) != 1:
        # the validation may live in a helper the setter hands the dictionary to
        for s_ in ctx.cg.sites(setter):
            for g in s_.callees:
                if g.module is setter.module and g.cls is None and g is not setter and isinstance(s_.node, ast.Call) \
                        and any(isinstance(a, ast.Name) and a.id in setter.params for a in s_.node.args) and len(val_loops(g)) == 1 \
                        and any(isinstance(x, ast.Raise) for x in ast.walk(g.node)):
                    setter = g
                    loops = val_loops(g)
    if len(loops) != 1:
        raise AnalysisError("key validation loop of the setter not found")
    setter = _Norm(setter)
    lp = val_loops(setter)[0]
    tgt = lp.target.elts[0] if isinstance(lp.target, ast.Tuple) else lp.target
    if not isinstance(tgt, ast.Name):
        raise AnalysisError("key variable of the validation loop not found")
    key = tgt.id
    # the boolean that guards the 'invalid key' raise
    valid_var = None
    for n in ast.walk(lp):
        if isinstance(n, ast.If) and isinstance(n.test, ast.UnaryOp) and isinstance(n.test.op, ast.Not) and isinstance(n.test.operand, ast.Name) \
                and any(isinstance(x, ast.Raise) for x in n.body):
            valid_var = n.test.operand.id
    helper_clauses = None
    scope = lp.body
    if valid_var is None:
        # idiom 3: the predicate is a same-module helper, ``if not _is_valid(key): raise`` -- normalised into the same
        # (test, value) clauses: ``if T: return V`` ... local bindings ... ``return V``
        for n in ast.walk(lp):
            if isinstance(n, ast.If) and isinstance(n.test, ast.UnaryOp) and isinstance(n.test.op, ast.Not) \
                    and isinstance(n.test.operand, ast.Call) and any(isinstance(x, ast.Raise) for x in n.body):
                c = n.test.operand
                r = ctx.db.resolve_dotted(setter.module, c.func)
                g = r[1] if r and r[0] == "func" else None
                if g is not None and len(c.args) == 1 and isinstance(c.args[0], ast.Name) and c.args[0].id == key \
                        and len(g.posparams) == 1 and not c.keywords:
                    g = _Norm(g)
                    helper_clauses = _helper_clauses(g)
                    key = g.posparams[0]
                    scope = [st for st in g.node.body if not (isinstance(st, ast.Expr) and isinstance(st.value, ast.Constant))]
                    setter = g
        if helper_clauses is None:
            raise AnalysisError("validity flag of the key validation not found")
    assigns = {}
    for n in [x for st in scope for x in ast.walk(st)]:
        if isinstance(n, ast.Assign) and len(n.targets) == 1 and isinstance(n.targets[0], ast.Name):
            assigns.setdefault(n.targets[0].id, []).append(n)
    # idiom 1: regex
    pats = [n for st in scope for n in ast.walk(st) if isinstance(n, ast.Call) and isinstance(n.func, ast.Attribute) and n.func.attr in ("match", "fullmatch")
            and n.args and isinstance(n.args[0], ast.Name) and n.args[0].id == key]
    total = None
    details = []

    def add(d, what):
        nonlocal total
        total = d if total is None else total.union(d)
        details.append(what)
    # walk the if/elif chain that assigns valid_var
    chain = [n for n in scope if isinstance(n, ast.If) and any(isinstance(x, ast.Assign) and isinstance(x.targets[0], ast.Name)
                                                                and x.targets[0].id == valid_var for x in ast.walk(n))]
    sep = None
    for n in scope:
        if isinstance(n, ast.Assign) and isinstance(n.targets[0], ast.Name) and isinstance(n.value, ast.Call) and unparse(n.value.func) == "max":
            finds = [a for a in n.value.args if isinstance(a, ast.Call) and isinstance(a.func, ast.Attribute) and a.func.attr == "find"
                     and isinstance(a.func.value, ast.Name) and a.func.value.id == key and a.args and isinstance(a.args[0], ast.Constant)]
            if len(finds) == len(n.value.args) >= 1:
                sep = (n.targets[0].id, [a.args[0].value for a in finds])
    if pats:
        for c in pats:
            pv = ctx.db.resolve_dotted(setter.module, c.func.value)
            pat = None
            if pv and pv[0] == "global":
                pat = ctx.fold.global_value(pv[1], pv[2])
            elif isinstance(c.func.value, ast.Call) and unparse(c.func.value.func) in ("re.compile",) and isinstance(c.func.value.args[0], ast.Constant):
                from sa.fold import FPattern
                pat = FPattern(c.func.value.args[0].value)
            if pat is None:
                raise AnalysisError("key validation pattern does not fold")
            r, groups, tree = RL.parse_pattern(pat.pattern, "match" if c.func.attr == "match" else "fullmatch")
            d = RL.compile_regex(r)
            # element check on a group, if present: not modelled -> over-approximation (sound on the left of an inclusion)
            add(d, "pattern %r" % pat.pattern)
        add(RL.lit("?"), "'?'")
        return total, details, key
    if (not chain and helper_clauses is None) or sep is None:
        raise AnalysisError("key validation idiom not recognised (neither separator-position nor regex form)")
    jvar, seps = sep
    sepset = frozenset(seps)

    def walk_chain(ifn):
        test = ifn.test
        val = [x for x in ifn.body if isinstance(x, ast.Assign) and x.targets[0].id == valid_var]
        handle(test, val[0].value if val else None)
        if ifn.orelse:
            if len(ifn.orelse) == 1 and isinstance(ifn.orelse[0], ast.If):
                walk_chain(ifn.orelse[0])
            else:
                # statements of the final else: local bindings then the valid assignment
                env = {}
                for st in ifn.orelse:
                    if isinstance(st, ast.Assign) and isinstance(st.targets[0], ast.Name):
                        if st.targets[0].id == valid_var:
                            handle(None, st.value, env)
                        else:
                            env[st.targets[0].id] = st.value

    def handle(test, value, env=None):
        env = env or {}
        tsrc = unparse(test) if test is not None else None
        if value is None:
            return
        if tsrc is not None and isinstance(test, ast.Compare) and isinstance(test.left, ast.Name) and test.left.id == key \
                and isinstance(test.comparators[0], ast.Constant) and isinstance(test.ops[0], ast.Eq):
            if isinstance(value, ast.Constant) and value.value is True:
                add(RL.lit(test.comparators[0].value), repr(test.comparators[0].value))
                return
        if tsrc is not None and tsrc.replace(" ", "") == "%s==-1" % jvar:
            # no separator: valid = key in SET
            if isinstance(value, ast.Compare) and isinstance(value.ops[0], ast.In) and unparse(value.left) == key:
                S = _fold_set(ctx, setter, value.comparators[0])
                nosep = RL.compile_regex(("rep", ("set", frozenset(set(RL.ALPHABET) - sepset)), 0, None))
                add(RL.finite(S).intersect(nosep), "element")
                return
        if test is None:
            # separator present: conjunction over key[:j] and key[j+1:]
            cs = conjuncts(value)
            head = None
            tail_preds = []
            tailvars = {nm for nm, ex in env.items() if isinstance(ex, ast.Subscript) and unparse(ex).replace(" ", "") == "%s[%s+1:]" % (key, jvar)}
            headvars = {nm for nm, ex in env.items() if isinstance(ex, ast.Subscript) and unparse(ex).replace(" ", "") == "%s[:%s]" % (key, jvar)}
            for c in cs:
                if isinstance(c, ast.Compare) and isinstance(c.ops[0], ast.In) and (
                        unparse(c.left).replace(" ", "") == "%s[:%s]" % (key, jvar) or (isinstance(c.left, ast.Name) and c.left.id in headvars)):
                    head = _fold_set(ctx, setter, c.comparators[0])
                else:
                    tail_preds.append(c)
            if head is None:
                raise AnalysisError("element part of a charged key is not checked against a set")
            # predicates may be on a local bound to key[j+1:] or on the slice itself
            tvar = "__tail__"
            norm = []
            for c in tail_preds:
                src = unparse(c).replace(" ", "")
                src = src.replace("%s[%s+1:]" % (key, jvar), tvar)
                for nm in tailvars:
                    import re as _re
                    src = _re.sub(r"\b%s\b" % nm, tvar, src)
                norm.append(ast.parse(src, mode="eval").body)
            tl = pred_language(ctx, setter, tvar, norm) if norm else RL.any_string()
            sepl = RL.compile_regex(("set", sepset))
            add(RL.cat(RL.finite(head), sepl, tl), "element sign suffix")
            return
        raise AnalysisError("unrecognised branch of the key validation: %s" % (tsrc,))
    if helper_clauses is not None:
        for test, value, env in helper_clauses:
            handle(test, value, env)
    else:
        walk_chain(chain[0])
    return total, details, key


def _helper_clauses(g):
    """[(test | None, returned expression, local bindings)] of a predicate helper made of ``if T: return V`` statements,
    single-name bindings and a final ``return V``; anything else is not modelled."""
    out, env = [], {}
    body = [st for st in g.node.body if not (isinstance(st, ast.Expr) and isinstance(st.value, ast.Constant))]
    for i, st in enumerate(body):
        if isinstance(st, ast.Assign) and len(st.targets) == 1 and isinstance(st.targets[0], ast.Name):
            env[st.targets[0].id] = st.value
        elif isinstance(st, ast.If) and not st.orelse and len(st.body) == 1 and isinstance(st.body[0], ast.Return) and st.body[0].value is not None:
            out.append((st.test, st.body[0].value, dict(env)))
        elif isinstance(st, ast.Return) and st.value is not None and i == len(body) - 1:
            out.append((None, st.value, dict(env)))
        else:
            raise AnalysisError("key validation helper %s has a statement form that is not modelled: %s" % (g.qual, unparse(st)[:60]))
    if not out or out[-1][0] is not None:
        raise AnalysisError("key validation helper %s does not end in a return" % g.qual)
    return out


def _fold_set(ctx, f, node):
    r = ctx.db.resolve_dotted(f.module, node)
    if r and r[0] == "global":
        v = ctx.fold.global_value(r[1], r[2])
        if isinstance(v, (set, frozenset, tuple, list, dict)) and all(isinstance(x, str) for x in v):
            return set(v)
    raise AnalysisError("membership set %s does not fold" % unparse(node))


def _const_dict_local(f, name):
    """the literal dict a local is bound to -- once, to a display of constants -- when nothing in f can change it"""
    if f is None or name not in f.locals or name in f.params:
        return None
    binds = [n for n in own_nodes(f.node) if isinstance(n, ast.Name) and n.id == name and isinstance(n.ctx, (ast.Store, ast.Del))]
    asg = [n for n in own_nodes(f.node) if isinstance(n, ast.Assign) and len(n.targets) == 1 and isinstance(n.targets[0], ast.Name)
           and n.targets[0].id == name and isinstance(n.value, ast.Dict)]
    if len(binds) != 1 or len(asg) != 1:
        return None
    for n in own_nodes(f.node):
        if isinstance(n, ast.Name) and n.id == name and isinstance(n.ctx, ast.Load):
            par = next((x for x in own_nodes(f.node) if any(c is n for c in ast.iter_child_nodes(x))), None)
            ok = isinstance(par, ast.Attribute) and par.attr in ("items", "keys", "values", "get") \
                or isinstance(par, (ast.For, ast.comprehension, ast.Compare)) \
                or (isinstance(par, ast.Subscript) and isinstance(par.ctx, ast.Load))
            if not ok:
                return None
    try:
        v = ast.literal_eval(asg[0].value)
    except Exception:
        return None
    return v if isinstance(v, dict) else None


class BuilderHooks(Hooks):
    def __init__(self):
        self.adds = []
        self.loop = None

    def tag(self, st, t):
        s2 = st.copy()
        s2.tags = st.tags + (t,)
        return s2

    def on_loop_head(self, eng, fr, node, head):
        if fr.depth == 0:
            head.tags = ()
        return head

    def on_loop(self, eng, fr, node, syms, entered, back, exits, breaks):
        if fr.depth == 0 and self.loop is None:
            self.loop = dict(node=node, syms=syms, entered=entered, back=back, exits=exits, breaks=breaks)

    def on_call(self, eng, fr, node, callee, args, kwargs, st):
        if isinstance(callee, tuple) and callee[0] == "method" and callee[1] == "items" and not args and fr.depth == 0 \
                and isinstance(node, ast.Call) and isinstance(node.func, ast.Attribute) and isinstance(node.func.value, ast.Name):
            # items() of a local bound once to a literal dict of constants that the function never changes: its pairs
            lit = _const_dict_local(fr.func, node.func.value.id)
            if lit is not None:
                return [(st, Tup([Tup([eng.wrap(k), eng.wrap(v)]) for k, v in lit.items()], "list"))]
        if isinstance(callee, tuple) and callee[0] == "method" and callee[1] in ("add", "update", "append", "extend") and fr.depth == 0:
            self.adds.append((node, callee[1], args, st))
            s2 = self.tag(st, ("add", node, args[0] if args else None))
            s2.epoch += 1
            return [(s2, Con(None))]
        return None


def run(ctx, rep):
    eff = Effects(ctx)
    setter, table_vars = eff.table_vars()
    getter = ctx.api("get_semantic_robust_alphabet")
    dec = symlang.dec_atom(ctx)

    # ---- partial evaluation of the builder
    h = BuilderHooks()
    eng = Engine(ctx, h)
    fr = eng.run_function(getter)
    # prefixes: the local literal dict iterated together with the table
    bonds = None
    for n in own_nodes(getter.node):
        if isinstance(n, ast.Assign) and isinstance(n.value, ast.Dict):
            try:
                bonds = ast.literal_eval(n.value)
            except Exception:
                pass
    if not isinstance(bonds, dict):
        # a module-level constant dict (never written anywhere in its module), folded from its initialiser
        for n in own_nodes(getter.node):
            if isinstance(n, ast.Call) and isinstance(n.func, ast.Attribute) and n.func.attr == "items" and isinstance(n.func.value, ast.Name):
                nm = n.func.value.id
                if (getter.module.name, nm) in table_vars or nm not in getter.module.assigned:
                    continue
                written = len(getter.module.assigned[nm]) != 1
                for x in ast.walk(getter.module.tree):
                    if isinstance(x, (ast.Subscript, ast.Attribute)) and isinstance(x.value, ast.Name) and x.value.id == nm:
                        if isinstance(x, ast.Subscript) and isinstance(x.ctx, (ast.Store, ast.Del)):
                            written = True
                        if isinstance(x, ast.Attribute) and x.attr in ("update", "pop", "clear", "setdefault", "popitem", "__setitem__"):
                            written = True
                    if isinstance(x, ast.Global) and nm in x.names:
                        written = True
                v = ctx.fold.global_value(getter.module.name, nm)
                if isinstance(v, dict) and not written:
                    bonds = dict(v)
    if not isinstance(bonds, dict):
        # a module-level constant sequence of (prefix, order) pairs handed to product() next to the table's items
        for n in own_nodes(getter.node):
            if isinstance(n, ast.Call) and unparse(n.func).split(".")[-1] == "product":
                for a in n.args:
                    if isinstance(a, ast.Name) and a.id not in getter.locals and a.id in getter.module.assigned \
                            and len(getter.module.assigned[a.id]) == 1 and (getter.module.name, a.id) not in table_vars:
                        try:
                            v = ctx.fold.global_value(getter.module.name, a.id)
                        except Exception:
                            continue
                        if isinstance(v, tuple) and v and all(isinstance(x, tuple) and len(x) == 2 and isinstance(x[0], str) for x in v):
                            bonds = dict(v)
                    elif isinstance(a, (ast.Tuple, ast.List)):
                        try:
                            v = ast.literal_eval(a)
                            if v and all(isinstance(x, (tuple, list)) and len(x) == 2 and isinstance(x[0], str) for x in v):
                                bonds = dict(v)
                        except Exception:
                            pass
    if not isinstance(bonds, dict):
        raise AnalysisError("bond-prefix table of the alphabet builder not found")
    ok = bonds == {k: v for k, v in SPEC.BOND_ORDER.items()}
    rep.ob("A3", ok, getter.node, getter, construct="prefix orders %r" % (bonds,), how="'' -> 1, '=' -> 2, '#' -> 3",
           witness=None if ok else "prefix/order table of the builder differs from the bond orders of the grammar", key="prefix-orders")

    # ---- A1
    klang, details, keyvar = key_language(ctx, setter)
    keys = klang.minus(RL.lit("?"))
    pre = RL.finite(set(bonds))
    symbols = RL.cat(("lit", "["), pre, keys, ("lit", "]"))
    okk, w = symbols.included_in(dec["dfa"])
    rep.ob("A1", okk, setter.node, setter, construct="atom symbols spellable from accepted keys (%s)" % "; ".join(details),
           how="inclusion in the decoder's atom language", nontrivial=True, key="keys/spellable",
           witness=None if okk else "the setter accepts a key whose alphabet symbol %r the decoder rejects" % w)
    # the symbol template of the builder is "[" prefix key "]"
    tmpl_ok = False
    for node, meth, args, st in h.adds:
        v = args[0] if args else None
        if isinstance(v, Str) and len(v.parts) == 4 and v.parts[0] == ("lit", "[") and v.parts[3] == ("lit", "]"):
            tmpl_ok = True
    rep.ob("A1", tmpl_ok, getter.node, getter, construct="atom symbol template", how="'[' + prefix + key + ']'",
           witness=None if tmpl_ok else "atom symbols of the alphabet are not built as '[' prefix key ']'", key="template")

    # ---- A2 fixed part
    fixed = set()
    for node, meth, args, st in h.adds:
        v = args[0] if args else None
        if meth in ("add", "append") and isinstance(v, Con) and isinstance(v.value, str):
            fixed.add(v.value)
        elif meth in ("update", "extend") and isinstance(v, Tup):
            for x in v.items:
                if isinstance(x, Con) and isinstance(x.value, str):
                    fixed.add(x.value)
        elif meth in ("update", "extend") and hasattr(v, "kind") and getattr(v, "kind", None) == "folded" and isinstance(v.target, (tuple, list, set, frozenset)):
            fixed |= {x for x in v.target if isinstance(x, str)}
    want = SPEC.robust_fixed_part()
    missing = sorted(want - fixed)
    rep.ob("A2", not missing, getter.node, getter, construct="%d table-independent symbols of the alphabet" % len(fixed),
           how="contain all 16 index symbols, 9 branch symbols, [RingL] and [=RingL]", nontrivial=True, key="fixed/complete",
           witness=None if not missing else "the alphabet lacks %s for some tables" % missing[:6])
    rt = set(__import__("rules.symlang", fromlist=["x"]).symbol_table(ctx, "ring"))
    bt = set(__import__("rules.symlang", fromlist=["x"]).symbol_table(ctx, "branch"))
    unknown = sorted(s for s in fixed if not (s in rt or s in bt or dec["dfa"].accepts(s)))
    rep.ob("A2", not unknown, getter.node, getter, construct="fixed symbols are decoder symbols", how="each is a ring / branch / atom symbol",
           witness=None if not unknown else "alphabet contains %s, unknown to the decoder" % unknown[:4], key="fixed/known")

    # ---- A3 filter on the product loop
    lp = h.loop
    if lp is None:
        raise AnalysisError("table loop of the alphabet builder not found")
    node = lp["node"]
    # loop target ((a, c), (b, m)) or similar: find names by role from the iterables
    names = [n.id for n in ast.walk(node.target) if isinstance(n, ast.Name)]
    agg = {}
    for st in lp["back"] + lp["breaks"]:
        adds = [t for t in st.tags if t[0] == "add"]
        env = st.env
        info = _roles(node, env)
        if info is not None:
            # one loop over product(table.items(), prefixes.items()): a symbolic (prefix, order) pair per iteration
            a, c, b, m = info
            pairs = [((("sym", b.term),), Lin.var(m.term), "this prefix")]
        else:
            # a loop over the table's items with the (literal) prefix table walked inside it: every concrete pair
            t_ = node.target
            if not (isinstance(t_, ast.Tuple) and len(t_.elts) == 2 and all(isinstance(x, ast.Name) for x in t_.elts)):
                raise AnalysisError("cannot identify key / capacity / prefix / order variables of the builder loop")
            a, c = env.get(t_.elts[0].id), env.get(t_.elts[1].id)
            if not (isinstance(a, Unk) and isinstance(c, Unk)):
                raise AnalysisError("cannot identify key / capacity variables of the builder loop")
            pairs = [((("lit", p_),) if p_ else (), Lin.const(m_), "prefix %r" % p_) for p_, m_ in sorted(bonds.items(), key=lambda kv: kv[1])]
        lc = Lin.var(c.term)
        qk = ("eq", tuple(sorted([repr(vkey(a)), repr(vkey(Con("?")))])))
        isq = st.atoms.get(qk)
        matched = set()
        for pre, lm, what in pairs:
            want = Engine._mk_str((("lit", "["),) + pre + (("sym", a.term), ("lit", "]")))
            hit = [t for t in adds if isinstance(t[2], Str) and isinstance(want, Str) and t[2].parts == want.parts]
            matched |= {id(t) for t in hit}
            probs = []
            if hit:
                if not st.entails(le(lm, lc)):
                    probs.append("a symbol is added although order <= capacity is not entailed")
                if isq is not False:
                    probs.append("a symbol may be added for the '?' key")
                agg.setdefault(("include", tuple(probs)), hit[0][1])
            else:
                if not (isq is True or st.entails(gt(lm, lc))):
                    probs.append("a (key, prefix) pair is skipped although order > capacity or key == '?' is not entailed (%s)" % what)
                agg.setdefault(("skip", tuple(probs)), node)
        stray = [t for t in adds if id(t) not in matched]
        if stray:
            agg.setdefault(("include", ("added symbol is not '[' + this prefix + this key + ']'",)), stray[0][1])
    for (kind, probs), where in agg.items():
        rep.ob("A3", not probs, where, getter, construct="%s path of the alphabet filter" % kind,
               how="included iff order <= capacity and key != '?'", witness="; ".join(probs) or None, nontrivial=True,
               key="filter/%s/%s" % (kind, "ok" if not probs else probs[0][:40]))
    if lp["breaks"]:
        rep.ob("A3", False, node, getter, construct="loop over the table's entries", how="every entry is visited",
               witness="the loop over the constraint table can stop early (break): entries listed after that point contribute no symbols",
               nontrivial=True, key="filter/early-exit")
    kinds = {k[0] for k in agg}
    if kinds != {"include", "skip"}:
        rep.ob("A3", False, node, getter, construct="alphabet filter", witness="expected an including and a skipping path, found %s" % sorted(kinds))
    # iterates the live table's items
    from rules.shared import resolve_local
    it_src = unparse(resolve_local(getter, node.iter))
    reads_table = any("%s.items()" % tv[1] in it_src for tv in table_vars)
    rep.ob("A3", reads_table, node, getter, construct="iterated table", how="items of the live constraint table",
           witness=None if reads_table else "alphabet is not built from the table in force", key="live-table")

    # ---- A4
    plain, selfkeyed = memo_readers(ctx, eff, table_vars)
    if getter.is_lru and getter not in plain:
        rep.ob("A4", False, getter.node, getter, witness="memoised alphabet does not register as a reader of the table")
    mf = MemoFlow(ctx, eff, setter, rep, plain, table_vars)
    mf.run(frozenset())
    for o in rep.obs:
        if o.rule == "G6":
            o.rule = "A4"
            o.key = o.key.replace("/G6/", "/A4/")
            rep.counts["A4"] = rep.counts.get("A4", 0) + 1
    rep.counts.pop("G6", None)
    # the table in force cannot change behind the memo: no alias of the live table / presets is handed out,
    # and what the setter binds is a module-owned copy
    for nm in ("get_preset_constraints",):
        check_fresh_return(ctx, eff, rep, ctx.api(nm), "A4", nm)
    from rules.shared import check_table_owned
    check_table_owned(ctx, rep, "A4")
    # the alphabet's filter compares with the table's value; decoding uses get_bonding_capacity: both must read the listed
    # value whenever the key is listed -- a listed capacity of 0 included (C06/Q2, shared)
    from rules.C06 import check_capacity_lookup
    check_capacity_lookup(ctx, rep, eff, table_vars, "A3")
    # ---- A5
    check_fresh_return(ctx, eff, rep, getter, "A5", "alphabet")
    # ---- A6: "... decodes to a molecule obeying the table": the valence lemmas of C01 (V0-V7: chain bonds, branch split, ring
    # requests, ring formation clamps, bookkeeping, capacity) on the same tree -- the alphabet is sound only together with them
    from sa.core import Report
    from rules import C01
    from rules.shared import import_obligations
    sub = Report("C07")
    C01.run(ctx, sub)
    n6 = import_obligations(rep, sub, {"V%d" % i: "A6" for i in range(0, 8)})
    rep.floor("A6", 20)
    rep.floor("A1", 2)
    rep.floor("A2", 2)
    rep.floor("A3", 4)
    rep.analysed.update({"fixed_symbols": len(fixed), "key_language": details})


def _roles(loop, env):
    """(key a, capacity c, prefix b, order m) Unk values of the builder loop from its target shape ((a, c), (b, m))"""
    t = loop.target
    if isinstance(t, ast.Tuple) and len(t.elts) == 2 and all(isinstance(x, ast.Tuple) and len(x.elts) == 2 for x in t.elts):
        (a, c), (b, m) = [[y.id for y in x.elts] for x in t.elts]
        # which pair is the table? the iterable order in product(table.items(), bonds.items())
        vals = [env.get(n) for n in (a, c, b, m)]
        if all(isinstance(v, Unk) for v in vals):
            return tuple(vals)
    return None
