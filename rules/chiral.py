"""C04 additions: necessary conditions of the '@/@@' and ring-closure-mark clauses that are visible in the code.

S4 parity: the value `_should_invert_chirality` tests is the parity of the number of inversions of the out-bond
   permutation.  Decided for every list length 0..5 (a tetrahedral centre has at most four neighbours; five is margin) by running the
   abstract interpreter on the counting code with a list of that many *symbolic* distinct integers: the comparison
   outcomes partition the input space into the n! total orders, on each of which the counter is a constant whose
   parity must equal that of the order's inversion number.  No concrete list is ever evaluated.
S5 ring-bond flag: `has_out_ring_bond(i)` must mean "atom i carries a ring bond": the flag it returns is set for BOTH
   endpoints in the one method that inserts ring bonds into the adjacency lists (and nowhere for non-ring bonds), or it
   is computed as any(...) over all out-bonds; a getter that inspects a single position of the adjacency list is wrong.
S6 both ring-closure digits keep their own mark: at the parser's add_ring_bond call, the mark of end a derives from the
   opening token's bond symbol and the mark of end b from the closing token's, on every path.
"""
import ast
import itertools

from sa import AnalysisError
from sa.db import own_nodes, unparse
from sa.lin import Lin, ge, le, eq, gt, lt
from sa.sym import Engine, Hooks, Num, Con, Tup, Obj, Unk, State, vkey, NONE, assume

MG = "selfies.mol_graph.MolecularGraph"


# ----------------------------------------------------------------------------- S4
def _parity_of(e):
    """(counter expression, True if the expression is true for ODD counts) for `c % 2 != 0`, `c % 2 == 1`, `c % 2`,
    `bool(c % 2)`, `c & 1`; None otherwise"""
    if isinstance(e, ast.Call) and unparse(e.func) == "bool" and len(e.args) == 1:
        return _parity_of(e.args[0])
    if isinstance(e, ast.BinOp) and ((isinstance(e.op, ast.Mod) and isinstance(e.right, ast.Constant) and e.right.value == 2)
                                     or (isinstance(e.op, ast.BitAnd) and isinstance(e.right, ast.Constant) and e.right.value == 1)):
        return e.left, True
    if isinstance(e, ast.UnaryOp) and isinstance(e.op, ast.Not):
        r = _parity_of(e.operand)
        return (r[0], not r[1]) if r else None
    if isinstance(e, ast.Compare) and len(e.ops) == 1 and isinstance(e.comparators[0], ast.Constant) and e.comparators[0].value in (0, 1):
        r = _parity_of(e.left)
        if r is None:
            return None
        c = e.comparators[0].value
        if isinstance(e.ops[0], ast.Eq):
            return r[0], (r[1] if c == 1 else not r[1])
        if isinstance(e.ops[0], ast.NotEq):
            return r[0], (r[1] if c == 0 else not r[1])
    return None


def _perm_expr(f):
    """(return statement, counter expression, odd_is_true) of the parity decision: the returned value is a parity test of
    a counter, directly or through one local name"""
    for r in own_nodes(f.node):
        if not (isinstance(r, ast.Return) and r.value is not None):
            continue
        e = r.value
        if isinstance(e, ast.Name):
            defs = [n.value for n in own_nodes(f.node) if isinstance(n, ast.Assign) and len(n.targets) == 1
                    and isinstance(n.targets[0], ast.Name) and n.targets[0].id == e.id]
            if len(defs) == 1:
                e = defs[0]
        p = _parity_of(e)
        if p is not None:
            return r, p[0], p[1]
    return None


def _decision_tails(f):
    """candidate (tail statements, name) pairs, shortest first: suffixes of f's body that end in the return and whose only
    free variable (read before the tail defines it) is a local used as a sequence (subscripted, iterated, len / enumerate /
    combinations of it) -- the permutation -- so that everything the decision looks at beyond that list is computed inside"""
    body = list(f.node.body)
    if not body or not isinstance(body[-1], ast.Return) or body[-1].value is None:
        return []
    out = []
    for k in range(len(body) - 1, -1, -1):
        tail = body[k:]
        defined, free = set(), set()
        for st in tail:
            loaded, plain, aug, lam = set(), set(), set(), set()
            for n in ast.walk(st):
                if isinstance(n, ast.AugAssign) and isinstance(n.target, ast.Name):
                    aug.add(n.target.id)
                elif isinstance(n, ast.Name):
                    (plain if isinstance(n.ctx, (ast.Store, ast.Del)) else loaded).add(n.id)
                elif isinstance(n, ast.arg):
                    lam.add(n.arg)
            plain -= aug
            free |= {n for n in (loaded | aug) - defined - plain - lam if n in f.locals}
            defined |= plain | aug
        if len(free) != 1:
            continue
        nm = next(iter(free))
        seq_use = False
        for st in tail:
            for n in ast.walk(st):
                if isinstance(n, ast.Subscript) and isinstance(n.value, ast.Name) and n.value.id == nm:
                    seq_use = True
                if isinstance(n, (ast.For, ast.comprehension)) and any(isinstance(x, ast.Name) and x.id == nm for x in ast.walk(n.iter)):
                    seq_use = True
                if isinstance(n, ast.Call) and any(isinstance(a, ast.Name) and a.id == nm for a in n.args):
                    seq_use = True          # handed to a builtin or to a counting helper (the probe below decides)
        if seq_use:
            out.append((tail, nm))
    return out


def _decision_tail(ctx, f):
    """the first candidate tail whose decision folds to a boolean constant on both orders of a two-element list (a tail cut
    too early -- e.g. at the list of bonds rather than the list of positions -- does not)"""
    for tail, nm in _decision_tails(f):
        good = True
        for vals in ((0, 1), (1, 0)):
            try:
                rets, raises = _decide_on(ctx, f, tail, nm, Tup([Num(Lin.const(v)) for v in vals], "list"), State())
            except AnalysisError:
                good = False
                break
            if raises or not rets or not all(isinstance(v, Con) and isinstance(v.value, bool) for _s, v in rets):
                good = False
                break
        if good:
            return tail, nm
    return None


def _decide_on(ctx, f, tail, nm, perm, st):
    """value returned by the decision tail with the permutation bound to `perm` in state `st` -> list of (state, value), raises"""
    from sa.sym import Frame
    eng = Engine(ctx, Hooks())
    frm = Frame(f, 0, None)
    s0 = st.copy()
    s0.env[nm] = perm
    eng.block(frm, tail, [s0])
    return frm.returns, frm.raises


def check_parity(ctx, rep, RULE="S4"):
    from rules.shared import chirality_decider
    f = chirality_decider(ctx)
    dt = _decision_tail(ctx, f)
    if dt is None:
        # `return is_odd(<permutation expression>)`: the whole decision sits in a helper that receives the permutation
        for r in own_nodes(f.node):
            if isinstance(r, ast.Return) and isinstance(r.value, ast.Call) and len(r.value.args) == 1 and not r.value.keywords:
                site = [s for s in ctx.cg.sites(f) if s.node is r.value]
                if site and len(site[0].callees) == 1 and site[0].callees[0].cls is None and len(site[0].callees[0].posparams) == 1:
                    return _check_parity_decider(ctx, rep, RULE, f, r, site[0].callees[0])
        raise AnalysisError("parity decision of _should_invert_chirality not located (no tail of the function depends on one list only)")
    tail, nm = dt
    ret = tail[-1]
    n_orders = 0
    bad = []
    mode = "symbolic"
    for n in range(0, 6):
        syms = [Lin.var(("p", n, k)) for k in range(n)]
        for order in itertools.permutations(range(n)):
            # order[r] = index of the element with rank r : p[order[0]] < p[order[1]] < ...
            inv = sum(1 for i in range(n) for j in range(i + 1, n) if order.index(i) > order.index(j))
            n_orders += 1
            vals = None
            if mode == "symbolic":
                st = State()
                for a, b in zip(order, order[1:]):
                    st.add_lin(ge(syms[b] - syms[a], 1))
                rets, raises = _decide_on(ctx, f, tail, nm, Tup([Num(x) for x in syms], "list"), st)
                if not raises and rets and all(isinstance(v, Con) and isinstance(v.value, bool) for _s, v in rets):
                    vals = [v.value for _s, v in rets]
                else:
                    mode = "positions"
            if vals is None:
                # the decision looks at the values, not only at their order: evaluated on the domain the caller supplies, the
                # permutations of the positions 0..n-1 (checked below: the list holds enumerate() positions of the out-bonds)
                conc = Tup([Num(Lin.const(order.index(i))) for i in range(n)], "list")
                rets, raises = _decide_on(ctx, f, tail, nm, conc, State())
                if raises:
                    bad.append((n, order, "the decision code can raise %s" % raises[0][2]))
                    continue
                if not rets or not all(isinstance(v, Con) and isinstance(v.value, bool) for _s, v in rets):
                    raise AnalysisError("parity decision is not a constant on a permutation of %d positions (%r): decision code not modelled"
                                        % (n, rets[0][1] if rets else None))
                vals = [v.value for _s, v in rets]
            for v in vals:
                if v != (inv % 2 == 1):
                    bad.append((n, order, "decision %s, inversions %d" % (v, inv)))
    if mode == "positions":
        # the fallback domain is right only if the list is made of positions: every value appended to the lists it is built
        # from is the enumerate() counter over the out-bonds
        encs = [n for n in own_nodes(f.node) if isinstance(n, ast.For) and isinstance(n.iter, ast.Call) and unparse(n.iter.func) == "enumerate"
                and isinstance(n.target, ast.Tuple) and isinstance(n.target.elts[0], ast.Name)]
        pos_names = {n.target.elts[0].id for n in encs}
        apps = [c for c in own_nodes(f.node) if isinstance(c, ast.Call) and isinstance(c.func, ast.Attribute) and c.func.attr == "append" and c.args]
        ok_dom = bool(encs) and bool(apps) and all(isinstance(c.args[0], ast.Name) and c.args[0].id in pos_names for c in apps)
        if not ok_dom:
            raise AnalysisError("parity decision depends on the values of the list, and the list is not visibly made of enumerate() positions")
    w = None
    if bad:
        n, order, why = bad[0]
        ranks = [order.index(i) + 1 for i in range(n)]
        w = "for out-bond positions ordered like %s the code gives %s: the parity differs from the permutation's, so the centre is " \
            "inverted when it should not be (or the reverse); %d of %d orderings of up to 5 neighbours are wrong" % (ranks, why, len(bad), n_orders)
    rep.ob(RULE, not bad, ret, f, construct="parity of the out-bond permutation (%d total orders of 0..5 elements, %s)" % (n_orders, mode),
           how="decision == (inversion parity is odd) on every order", witness=w, nontrivial=True, key="inversion-parity")
    rep.ob(RULE, True, ret, f, construct=unparse(ret.value)[:70], how="decision tail depends on the list %s only" % nm, key="odd-inverts")
    _check_early_returns(ctx, rep, RULE, f, tail)
    rep.floor(RULE, 2)


def _check_early_returns(ctx, rep, RULE, f, tail):
    """every `return <constant>` placed before the decision tail is taken only for a number of bonds for which that constant IS
    the parity decision: all permutations of 0 or 1 elements are even, so `return False` is right exactly under len < 2"""
    early = []
    for st in f.node.body:
        if any(st is t for t in tail):
            break
        for n in ast.walk(st):
            if isinstance(n, ast.Return):
                early.append((st, n))
    if not early:
        return
    seqs = {x.targets[0].id for x in f.node.body if isinstance(x, ast.Assign) and len(x.targets) == 1 and isinstance(x.targets[0], ast.Name)}
    from sa.sym import Frame
    for st, r in early:
        probs = []
        if _is_gate(ctx, f, st, r):
            rep.ob(RULE, True, r, f, construct="early %s" % unparse(st)[:60].replace("\n", " "),
                   how="`return False` for an atom without a chirality mark (inverting it is a no-op) or without a ring bond (S5: then no "
                       "out-bond is a ring bond, the order is kept and the permutation is the identity)", nontrivial=True, key="early-return/gate")
            continue
        if not (isinstance(st, ast.If) and len(st.body) == 1 and st.body[0] is r and not st.orelse and isinstance(r.value, ast.Constant)
                and isinstance(r.value.value, bool)):
            probs.append("an early return of a shape the parity rule cannot evaluate")
        else:
            names = {n.id for n in ast.walk(st.test) if isinstance(n, ast.Name) and n.id in f.locals}
            if len(names) != 1 or not (names <= seqs):
                probs.append("the early return does not depend on one local list only")
            else:
                nm = next(iter(names))
                for n_ in range(0, 6):
                    eng = Engine(ctx, Hooks())
                    frm = Frame(f, 0, None)
                    s0 = State()
                    s0.env[nm] = Tup([Unk(("bond", n_, k_)) for k_ in range(n_)], "list")
                    vals = [eng.truth(v) for _s, v in eng.eval(frm, st.test, s0)]
                    if not vals or not all(isinstance(v, bool) for v in vals):
                        probs.append("the condition of the early return is not decided by the number of out-bonds")
                        break
                    if any(vals) and (n_ >= 2 or r.value.value is not False):
                        probs.append("for %d out-bonds the function returns %s without looking at their order, although both even and odd "
                                     "orderings of %d bonds exist: the centres concerned are never (or always) inverted" % (n_, r.value.value, n_))
                        break
        rep.ob(RULE, not probs, r, f, construct="early %s" % unparse(st)[:60].replace("\n", " "),
               how="taken only for fewer than two out-bonds, where every ordering is even", witness="; ".join(probs) or None,
               nontrivial=True, key="early-return/%s" % ("ok" if not probs else "bad"))


def _is_gate(ctx, f, st, r):
    """`if <gate> [or <gate>]: return False` at the top of the decider, where each gate is one of the two conditions under which the
    caller need not ask at all:  <atom>.chirality is None  (Atom.invert_chirality changes '@' / '@@' only -- checked here on the
    method's code) and  not <graph>.has_out_ring_bond(<atom>.index)  (meaning of the flag: S5)."""
    if not (isinstance(st, ast.If) and len(st.body) == 1 and st.body[0] is r and not st.orelse and isinstance(r.value, ast.Constant)
            and r.value.value is False):
        return False
    disj = st.test.values if isinstance(st.test, ast.BoolOp) and isinstance(st.test.op, ast.Or) else [st.test]
    params = set(f.params)

    def chirality_none(e):
        return isinstance(e, ast.Compare) and len(e.ops) == 1 and isinstance(e.ops[0], ast.Is) and isinstance(e.left, ast.Attribute) \
            and e.left.attr == "chirality" and isinstance(e.left.value, ast.Name) and e.left.value.id in params \
            and isinstance(e.comparators[0], ast.Constant) and e.comparators[0].value is None

    def no_ring_bond(e):
        if not (isinstance(e, ast.UnaryOp) and isinstance(e.op, ast.Not) and isinstance(e.operand, ast.Call)):
            return False
        c = e.operand
        site = {id(s_.node): s_ for s_ in ctx.cg.sites(f)}.get(id(c))
        if site is None or len(site.callees) != 1 or site.callees[0].name != "has_out_ring_bond" or len(c.args) != 1:
            return False
        a = c.args[0]
        return isinstance(a, ast.Attribute) and a.attr == "index" and isinstance(a.value, ast.Name) and a.value.id in params
    if not all(chirality_none(e) or no_ring_bond(e) for e in disj):
        return False
    if any(chirality_none(e) for e in disj):
        # inverting an unmarked atom is a no-op: every store to .chirality in invert_chirality sits under a test of it against a str
        inv = [m for c_ in ctx.db.classes.values() for m in c_.methods.values() if m.name == "invert_chirality"]
        if len(inv) != 1:
            return False
        for n in own_nodes(inv[0].node):
            if isinstance(n, ast.Attribute) and n.attr == "chirality" and isinstance(n.ctx, ast.Store):
                par = [x for x in ast.walk(inv[0].node) if isinstance(x, ast.If) and any(y is n for b in x.body + x.orelse for y in ast.walk(b))]
                if not any(isinstance(x.test, ast.Compare) and isinstance(x.test.ops[0], ast.Eq) and isinstance(x.test.comparators[0], ast.Constant)
                           and isinstance(x.test.comparators[0].value, str) and unparse(x.test.left).endswith(".chirality")
                           and any(y is n for b in x.body for y in ast.walk(b)) for x in par):
                    return False
    return True


def _check_parity_decider(ctx, rep, RULE, f, ret, g):
    """the helper g(perm) returns the decision itself: on every total order of n symbolic elements it must come out as the
    constant `inversion parity is odd`"""
    n_orders = 0
    bad = []
    for n in range(0, 6):
        syms = [Lin.var(("p", n, k)) for k in range(n)]
        perm = Tup([Num(x) for x in syms], "list")
        for order in itertools.permutations(range(n)):
            st = State()
            for a, b in zip(order, order[1:]):
                st.add_lin(ge(syms[b] - syms[a], 1))
            inv = sum(1 for i in range(n) for j in range(i + 1, n) if order.index(i) > order.index(j))
            fr = Engine(ctx, Hooks()).run_function(g, {g.posparams[0]: perm}, state=st)
            n_orders += 1
            if fr.raises:
                bad.append((n, order, "the counting code can raise %s" % fr.raises[0][2]))
                continue
            if not fr.returns:
                raise AnalysisError("parity helper %s has no normal exit for a list of length %d" % (g.name, n))
            for s_, v in fr.returns:
                if not (isinstance(v, Con) and isinstance(v.value, bool)):
                    raise AnalysisError("parity decision of %s is not a constant on a total order of %d symbolic elements (%r): not modelled"
                                        % (g.name, n, v))
                if v.value != (inv % 2 == 1):
                    bad.append((n, order, "decision %s, inversions %d" % (v.value, inv)))
    w = None
    if bad:
        n, order, why = bad[0]
        ranks = [order.index(i) + 1 for i in range(n)]
        w = "for out-bond positions ordered like %s the code gives %s: the centre is inverted when it should not be (or the reverse); " \
            "%d of %d orderings of up to 5 neighbours are wrong" % (ranks, why, len(bad), n_orders)
    rep.ob(RULE, not bad, ret, f, construct="%s: inverts exactly for odd permutations (%d total orders of 0..5 symbolic elements)" % (g.name, n_orders),
           how="decision == (inversion parity is odd) on every order", witness=w, nontrivial=True, key="inversion-parity")
    rep.ob(RULE, True, ret, f, construct=unparse(ret.value)[:70], how="the helper's result is returned unchanged", key="odd-inverts")
    rep.floor(RULE, 2)


# ----------------------------------------------------------------------------- S5
def check_ring_flag(ctx, rep, RULE="S5"):
    cls = ctx.db.classes[MG]
    G = cls.methods.get("has_out_ring_bond")
    R = cls.methods.get("add_ring_bond")
    if G is None or R is None:
        raise AnalysisError("has_out_ring_bond / add_ring_bond not found on MolecularGraph")
    selfn, src = G.posparams[0], G.posparams[1]
    rets = [r for r in own_nodes(G.node) if isinstance(r, ast.Return) and r.value is not None]
    if len(rets) != 1:
        raise AnalysisError("has_out_ring_bond has %d return statements: not modelled" % len(rets))
    e = rets[0].value
    # form A: a per-atom flag  self.F[src]
    if isinstance(e, ast.Subscript) and isinstance(e.value, ast.Attribute) and isinstance(e.value.value, ast.Name) and e.value.value.id == selfn \
            and isinstance(e.slice, ast.Name) and e.slice.id == src:
        field = e.value.attr
        # endpoints: the parameters used as `src` of the two DirectedBond constructions
        ends = set()
        for n in own_nodes(R.node):
            if isinstance(n, ast.Call) and unparse(n.func).endswith("DirectedBond"):
                for k in n.keywords:
                    if k.arg == "src" and isinstance(k.value, ast.Name):
                        ends.add(k.value.id)
                if n.args and isinstance(n.args[0], ast.Name):
                    ends.add(n.args[0].id)
        if len(ends) != 2:
            raise AnalysisError("endpoints of the ring bond built in add_ring_bond not identified (%s)" % sorted(ends))
        # abstract run of add_ring_bond (private helpers of the class inlined, loops over displays unrolled): on every
        # normal path the flag of each endpoint is stored True
        helpers = {m.qual for m in cls.methods.values() if m.name.startswith("_") and not m.name.startswith("__")}
        stores = []

        class SH(Hooks):
            def on_store(self, eng, fr, node, base, index, value, st):
                if not isinstance(index, str) and isinstance(base, Unk) and isinstance(base.term, tuple) and base.term[0] == "attr" \
                        and base.term[2] == field:
                    stores.append((node, vkey(index), value, st))
        eng = Engine(ctx, SH(), inline_methods=helpers)
        params = {p: Num(Lin.var(("end", p))) for p in ends}
        fr = eng.run_function(R, params)
        if not fr.returns:
            raise AnalysisError("add_ring_bond has no normal path")
        missing = []
        for p in sorted(ends):
            want = vkey(params[p])
            evs = [(n_, v, st) for n_, k, v, st in stores if k == want and isinstance(v, Con) and v.value is True]
            for rs, _rv in fr.returns:
                ra, rl = set(rs.atoms.items()), {(l.key(), op) for l, op in rs.lin}
                if not any(set(st.atoms.items()) <= ra and {(l.key(), op) for l, op in st.lin} <= rl for _n, _v, st in evs):
                    missing.append(p)
                    break
        rep.ob(RULE, not missing, R.node, R, construct="ring flag %s set in add_ring_bond" % field, how="True for both endpoints %s on every path" % sorted(ends),
               witness=None if not missing else "add_ring_bond does not mark endpoint(s) %s as carrying a ring bond: their chirality is never re-examined "
               "although the decoder moves their ring bond" % missing, nontrivial=True, key="flag-set-both-ends")
        # nobody else sets it True (a non-ring bond or a placeholder must not count), and it starts False
        others = []
        for m in cls.methods.values():
            if m is R:
                continue
            for n in own_nodes(m.node):
                if isinstance(n, ast.Assign) and isinstance(n.targets[0], ast.Subscript) and isinstance(n.targets[0].value, ast.Attribute) \
                        and n.targets[0].value.attr == field and not (isinstance(n.value, ast.Constant) and n.value.value is False):
                    others.append((m, n))
                if isinstance(n, ast.Call) and isinstance(n.func, ast.Attribute) and n.func.attr in ("append", "insert") \
                        and isinstance(n.func.value, ast.Attribute) and n.func.value.attr == field and n.args \
                        and not (isinstance(n.args[-1], ast.Constant) and n.args[-1].value is False):
                    others.append((m, n))
        # a shared private helper may hold the store (e.g. `_count_bond(..., ring_bond)` called by add_bond with False): the
        # question is decided per *entry* method, by an abstract run with the class's private helpers inlined, so that a
        # constant argument folds the helper's test
        def callers_in_class(h):
            return [m2 for m2 in cls.methods.values() if any(h in s_.callees for s_ in ctx.cg.sites(m2))]

        def outside_callers(h):
            return [g for g in ctx.db.funcs.values() if g.cls is not cls and any(h in s_.callees for s_ in ctx.cg.sites(g))]
        entries, seen_h = set(), set()
        work = [m for m, _n in others]
        while work:
            m = work.pop()
            if m.qual in helpers:
                if m.qual in seen_h:
                    continue
                seen_h.add(m.qual)
                if outside_callers(m):
                    entries.add(m)
                work.extend(callers_in_class(m))
            elif m is not R:
                entries.add(m)
        flagged = []
        for m in sorted(entries, key=lambda x: x.qual):
            st2 = []

            class SH2(Hooks):
                def on_store(self, eng, fr, node, base, index, value, st):
                    if not isinstance(index, str) and isinstance(base, Unk) and isinstance(base.term, tuple) and base.term[0] == "attr" \
                            and base.term[2] == field and not (isinstance(value, Con) and value.value is False):
                        st2.append(node)

                def on_call(self, eng, fr, node, callee, args, kwargs, st):
                    if isinstance(callee, tuple) and callee[0] == "method" and callee[1] in ("append", "insert") and args \
                            and isinstance(node.func, ast.Attribute) and isinstance(node.func.value, ast.Attribute) \
                            and node.func.value.attr == field and not (isinstance(args[-1], Con) and args[-1].value is False):
                        st2.append(node)
                    return None
            Engine(ctx, SH2(), inline_methods=helpers).run_function(m, {})
            for n in st2[:1]:
                flagged.append((m, n))
        others = flagged
        if not others:
            rep.ob(RULE, True, G.node, G, construct="ring flag %s" % field, how="only add_ring_bond sets it; it starts False", key="flag-only-ring")
        return
    # form B: computed from all out-bonds
    if isinstance(e, ast.Call) and unparse(e.func) == "any" and e.args and isinstance(e.args[0], (ast.GeneratorExp, ast.ListComp)):
        gen = e.args[0]
        it = gen.generators[0].iter
        over_all = isinstance(it, ast.Subscript) and isinstance(it.slice, ast.Name) and it.slice.id == src and not gen.generators[0].ifs \
            or (isinstance(it, ast.Call) and isinstance(it.func, ast.Attribute) and it.func.attr == "get_out_dirbonds")
        reads_flag = isinstance(gen.elt, ast.Attribute) and gen.elt.attr == "ring_bond"
        ok = bool(over_all and reads_flag)
        rep.ob(RULE, ok, rets[0], G, construct=unparse(e)[:70], how="any(bond.ring_bond) over all out-bonds of the atom",
               witness=None if ok else "has_out_ring_bond does not range over all out-bonds of the atom", nontrivial=True, key="any-over-out-bonds")
        rep.ob(RULE, True, G.node, G, construct="no separate flag", how="computed form", key="flag-only-ring")
        return
    # a single position of the adjacency list
    single = [n for n in ast.walk(e) if isinstance(n, ast.Attribute) and n.attr == "ring_bond" and isinstance(n.value, ast.Subscript)
              and isinstance(n.value.slice, (ast.Constant, ast.UnaryOp))]
    if single:
        rep.ob(RULE, False, rets[0], G, construct=unparse(e)[:70], nontrivial=True, key="single-position",
               witness="has_out_ring_bond looks at one position of the atom's out-bonds only: a ring bond written after a branch (or before, "
                       "for the last position) is missed and the centre's chirality is not corrected")
        return
    raise AnalysisError("has_out_ring_bond has a form that is not modelled: %s" % unparse(e)[:80])


# ----------------------------------------------------------------------------- S6
def check_ring_closure_marks(ctx, rep, RULE="S6"):
    s2m = ctx.fn("selfies.utils.smiles_utils.smiles_to_mol")
    s2b = ctx.fn("selfies.utils.smiles_utils.smiles_to_bond")
    cls = ctx.db.classes[MG]
    R = cls.methods["add_ring_bond"]
    funcs = []
    for q in ctx.cg.region(s2m):
        g = ctx.db.funcs[q]
        if g.cls is None and any(R in s.callees for s in ctx.cg.sites(g)):
            funcs.append(g)
    if not funcs:
        raise AnalysisError("no parser function calls add_ring_bond")
    n = 0
    for g in funcs:
        events = []

        class H(Hooks):
            def opaque_call(self, eng, fr, node, callee, args, kwargs, st):
                return callee is s2b

            def on_call(self, eng, fr, node, callee, args, kwargs, st):
                if callee is s2b and args:
                    k = vkey(args[0])
                    return [(st, Tup([Unk(("order-of", k)), Unk(("mark-of", k))]))]
                if hasattr(callee, "cls") and callee.cls is not None and callee.cls.name == "SMILESToken":
                    return [(st, Unk(("mcall", callee.name, tuple(vkey(a) for a in args))))]
                if callee is R:
                    bound = eng.bind_args(callee, args[1:], kwargs, skip_self=True) or {}
                    events.append((node, bound, st))
                    return [(st, NONE)]
                return None
        eng = Engine(ctx, H())
        eng.run_function(g, {})
        # which token supplies which endpoint: the token whose atom's index is passed as a / b
        agg = {}
        for node, bound, st in events:
            n += 1
            probs = []
            pairs = [("a", "a_stereo"), ("b", "b_stereo")]
            toks = {}
            for end, mark in pairs:
                mv = bound.get(mark)
                mk = vkey(mv) if mv is not None else None
                src_tokens = _tokens_in(mk)
                if not (mk and mk[0] == "unk" and isinstance(mk[1], tuple) and mk[1][0] == "mark-of") or len(src_tokens) != 1:
                    probs.append("the mark of end %s is not simply the mark written on one ring digit (%s)" % (end, _short(mk)))
                else:
                    toks[end] = next(iter(src_tokens))
            if len(toks) == 2 and toks["a"] == toks["b"]:
                probs.append("both ends take their mark from the same ring digit")
            agg.setdefault(tuple(probs), node)
        for probs, node in agg.items():
            rep.ob(RULE, not probs, node, g, construct="marks handed to add_ring_bond in %s" % g.name,
                   how="end a: the mark on one digit's bond symbol, end b: the mark on the other's, on every path", witness="; ".join(probs) or None,
                   nontrivial=True, key="closure-marks/%s" % ("ok" if not probs else probs[0][:50]))
    if not n:
        raise AnalysisError("add_ring_bond call not reached in the parser")
    rep.floor(RULE, 1)


def _tokens_in(k, out=None):
    """parameter names of token objects whose bond symbol a value derives from"""
    out = set() if out is None else out
    if isinstance(k, tuple):
        if len(k) == 3 and k[0] == "mcall" and k[1] == "extract_bond_char":
            a = k[2][0] if k[2] else None          # the token object the bond symbol is read from
            if isinstance(a, tuple) and a[0] == "unk" and isinstance(a[1], tuple) and a[1][0] == "param":
                out.add(a[1][2])
            elif a is not None:
                out.add(repr(a))
            return out
        for x in k:
            _tokens_in(x, out)
    return out


def _short(k):
    s = repr(k)
    return s if len(s) < 90 else s[:90] + "..."
