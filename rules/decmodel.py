"""Extraction of the decoder's derivation-loop behaviour with the symbolic engine (shared by C01, C02).

Roles are found by dataflow, not by name:
  derivation function D  = the function `decoder` calls inside its per-fragment loop with a constant 0 and None
  budget parameter       = the parameter of D that receives the constant 0   (grammar state X_i)
  root parameter         = the parameter of D that receives None
  queue parameter        = the parameter of D whose argument is a list allocated in `decoder` and that is
                           also passed to the second-pass function
  symbol processors      = selfies.grammar_rules.process_{atom,branch,ring}_symbol (anchors named in the
                           property; a missing anchor is an analysis error, never a silent pass)
One iteration of D's main loop is then summarised per path: events (atom added, bond added, ring queued,
branch recursion, index symbols read), the budget at the loop head and at the back edge / break.
"""
import ast

from sa import AnalysisError
from sa.db import unparse
from sa.lin import Lin, ge, le, eq
from sa.sym import (Engine, Hooks, Num, Con, Tup, Obj, Unk, Ref, Bool, Str, State, assume, vkey, NONE)

GR = "selfies.grammar_rules."


def find_roles(ctx):
    dec = ctx.api("decoder")
    D = None
    call = None
    for s in ctx.cg.sites(dec):
        for g in s.callees:
            if g.module.name == dec.module.name and not g.is_generator and isinstance(s.node, ast.Call):
                # candidate: receives a literal 0 and a literal None
                consts = {}
                pos = g.posparams
                for i, a in enumerate(s.node.args):
                    if isinstance(a, ast.Constant) and i < len(pos):
                        consts[pos[i]] = a.value
                for k in s.node.keywords:
                    if isinstance(k.value, ast.Constant) and k.arg:
                        consts[k.arg] = k.value.value
                zeros = [p for p, v in consts.items() if v == 0 and v is not False and not isinstance(v, bool)]
                nones = [p for p, v in consts.items() if v is None]
                if zeros and nones:
                    D, call = g, s.node
                    roles = {"budget": zeros[0], "root": nones[0], "top_state": 0}
                elif nones and D is None and any(g in r.callees for r in ctx.cg.sites(g)):
                    # the self-recursive derivation entered with a constant state other than 0: roles are still
                    # determined (C01/V0 reports the constant); with no integer constant at all there is no role
                    ints = [p for p, v in consts.items() if isinstance(v, int) and not isinstance(v, bool)]
                    if len(ints) == 1:
                        D, call = g, s.node
                        roles = {"budget": ints[0], "root": nones[0], "top_state": consts[ints[0]]}
    if D is None:
        raise AnalysisError("derivation function not found: no call in decoder() passes a constant state and None")
    # queue parameter: argument is a local of decoder bound to a fresh list, also passed to another callee
    pt = ctx.pt
    for k in call.keywords:
        if isinstance(k.value, ast.Name):
            ids = pt.v(dec.qual, k.value.id)
            if any(isinstance(i, tuple) and i[0] == "alloc" and i[1] == dec.qual and pt.objs[i].kind == "list" for i in ids):
                roles.setdefault("queue", k.arg)
                roles["queue_local"] = k.value.id
    pos = D.posparams
    for i, a in enumerate(call.args):
        if isinstance(a, ast.Name) and i < len(pos):
            ids = pt.v(dec.qual, a.id)
            if any(isinstance(j, tuple) and j[0] == "alloc" and j[1] == dec.qual and pt.objs[j].kind == "list" for j in ids):
                roles.setdefault("queue", pos[i])
                roles["queue_local"] = a.id
    if "queue" not in roles:
        raise AnalysisError("ring queue parameter of %s not found" % D.qual)
    # second pass: the other callee of decoder that receives the queue local
    second = None
    for s in ctx.cg.sites(dec):
        if isinstance(s.node, ast.Call) and s.node is not call:
            names = [a.id for a in s.node.args if isinstance(a, ast.Name)] + \
                    [k.value.id for k in s.node.keywords if isinstance(k.value, ast.Name)]
            if roles["queue_local"] in names:
                for g in s.callees:
                    second = g
                    # which parameter
                    for i, a in enumerate(s.node.args):
                        if isinstance(a, ast.Name) and a.id == roles["queue_local"]:
                            roles["second_queue"] = g.posparams[i]
                    for k in s.node.keywords:
                        if isinstance(k.value, ast.Name) and k.value.id == roles["queue_local"]:
                            roles["second_queue"] = k.arg
    if second is None:
        raise AnalysisError("second-pass (ring formation) function not found")
    roles["D"] = D
    roles["second"] = second
    roles["top_call"] = call
    # graph parameter of D: the one receiving the MolecularGraph allocated in decoder
    for src in list(zip(pos, call.args)) + [(k.arg, k.value) for k in call.keywords]:
        p, a = src
        if isinstance(a, ast.Name):
            ids = pt.v(dec.qual, a.id)
            if any(isinstance(j, tuple) and j[0] == "alloc" and pt.objs[j].kind == "inst" for j in ids):
                roles["graph"] = p
    # index reader: function of the decoder module called from D that calls get_index_from_selfies
    for s in ctx.cg.sites(D):
        for g in s.callees:
            if g is not D and g.name != "get_index_from_selfies" and not g.is_method:
                if any(h.name == "get_index_from_selfies" for s2 in ctx.cg.sites(g) for h in s2.callees):
                    roles["index_reader"] = g
    if "index_reader" not in roles:
        raise AnalysisError("index reader (caller of get_index_from_selfies) not found in the derivation function")
    for nm in ("process_atom_symbol", "process_branch_symbol", "process_ring_symbol"):
        roles[nm] = ctx.fn(GR + nm)
    return roles


def reader_shape(ctx, R):
    """None when the index reader returns the index alone; otherwise the position of the index in the pair it returns
    (the component computed by get_index_from_selfies; the other one is its count of symbols read)"""
    key = ("reader_shape", R.qual)
    if key in ctx.cache:
        return ctx.cache[key]
    from sa.db import own_nodes
    qnames = set()
    for n in own_nodes(R.node):
        if isinstance(n, ast.Assign) and isinstance(n.value, ast.Call) and unparse(n.value.func).endswith("get_index_from_selfies"):
            qnames |= {t.id for t in n.targets if isinstance(t, ast.Name)}

    def is_q(e):
        return (isinstance(e, ast.Call) and unparse(e.func).endswith("get_index_from_selfies")) or (isinstance(e, ast.Name) and e.id in qnames)
    shapes = set()
    for r in own_nodes(R.node):
        if isinstance(r, ast.Return) and r.value is not None:
            if isinstance(r.value, ast.Tuple) and len(r.value.elts) == 2:
                hit = [i for i, e in enumerate(r.value.elts) if is_q(e)]
                shapes.add(hit[0] if len(hit) == 1 else "?")
            elif is_q(r.value):
                shapes.add(None)
            else:
                shapes.add("?")
    if len(shapes) != 1 or "?" in shapes:
        raise AnalysisError("return shape of the index reader %s not recognised" % R.qual)
    ctx.cache[key] = next(iter(shapes))
    return ctx.cache[key]


class Event:
    __slots__ = ("kind", "data", "node")

    def __init__(self, kind, data, node):
        self.kind = kind
        self.data = data
        self.node = node

    def __repr__(self):
        return "Ev(%s)" % self.kind


def under(fr, D):
    """the frame belongs to the derivation function D: D itself, or a helper of D's module inlined (transitively) into it"""
    f = fr
    while f is not None:
        if f.func is D:
            return True
        if f.func is None or f.func.module is not D.module or f.func.cls is not None:
            return False
        f = f.parent
    return False


class DecHooks(Hooks):
    """models the three symbol processors and the index reader abstractly and logs graph events"""

    def __init__(self, ctx, roles, tables):
        self.ctx = ctx
        self.roles = roles
        self.tables = tables
        self.iterations = []      # filled by on_loop for the main loop of D
        self.main_loop = None
        self.loops_seen = 0
        self.graph_methods = {m.name: m for m in ctx.db.classes["selfies.mol_graph.MolecularGraph"].methods.values()}

    def tag(self, st, ev):
        s2 = st.copy()
        s2.tags = st.tags + (ev,)
        return s2

    def on_loop_head(self, eng, fr, node, head):
        if fr.func is self.roles["D"] and fr.depth == 0:
            head.tags = ()
        return head

    def on_loop(self, eng, fr, node, head_syms, entered, back, exits, breaks):
        if fr.func is self.roles["D"] and fr.depth == 0:
            self.loops_seen += 1
            if self.main_loop is None:
                self.main_loop = dict(node=node, syms=head_syms, back=back, breaks=breaks, exits=exits,
                                      entered=entered)

    def on_call(self, eng, fr, node, callee, args, kwargs, st):
        R = self.roles
        if callee is R["process_atom_symbol"]:
            sym = args[0] if args else kwargs.get("symbol")
            n = next(eng.counter)
            beta = ("beta", n)
            atom = Obj(("atom", n), "selfies.mol_graph.Atom")
            cap = ("prop", "bonding_capacity", vkey(atom))
            out = [(self.tag(st, Event("P-atom", {"result": None, "symbol": sym}, node)), NONE)]
            s2 = self.tag(st, Event("P-atom", {"result": "ok", "beta": beta, "atom": atom, "cap": cap, "symbol": sym}, node))
            lo, hi = self.tables["atom_orders"]
            s2.add_lin(ge(Lin.var(beta), lo))
            s2.add_lin(le(Lin.var(beta), hi))
            s2.add_lin(ge(Lin.var(cap), 0))
            out.append((s2, Tup([Tup([Num(Lin.var(beta)), Unk(("stereo", n))]), atom])))
            return out
        if callee is R["process_branch_symbol"]:
            sym = args[0] if args else kwargs.get("symbol")
            n = next(eng.counter)
            bt, L = ("btype", n), ("bL", n)
            out = [(self.tag(st, Event("P-branch", {"result": None, "symbol": sym}, node)), NONE)]
            s2 = self.tag(st, Event("P-branch", {"result": "ok", "type": bt, "L": L, "symbol": sym}, node))
            (tlo, thi), (llo, lhi) = self.tables["branch_ranges"]
            for t, lo, hi in ((bt, tlo, thi), (L, llo, lhi)):
                s2.add_lin(ge(Lin.var(t), lo))
                s2.add_lin(le(Lin.var(t), hi))
            out.append((s2, Tup([Num(Lin.var(bt)), Num(Lin.var(L))])))
            return out
        if callee is R["process_ring_symbol"]:
            sym = args[0] if args else kwargs.get("symbol")
            n = next(eng.counter)
            rt, L = ("rtype", n), ("rL", n)
            out = [(self.tag(st, Event("P-ring", {"result": None, "symbol": sym}, node)), NONE)]
            s2 = self.tag(st, Event("P-ring", {"result": "ok", "type": rt, "L": L, "stereo": ("rstereo", n), "symbol": sym}, node))
            (tlo, thi), (llo, lhi) = self.tables["ring_ranges"]
            for t, lo, hi in ((rt, tlo, thi), (L, llo, lhi)):
                s2.add_lin(ge(Lin.var(t), lo))
                s2.add_lin(le(Lin.var(t), hi))
            out.append((s2, Tup([Num(Lin.var(rt)), Num(Lin.var(L)), Unk(("rstereo", n))])))
            return out
        if callee is R["index_reader"]:
            n = next(eng.counter)
            q = ("Q", n)
            bound = eng.bind_args(callee, args, kwargs) or {}
            s2 = self.tag(st, Event("read-index", {"Q": q, "args": bound}, node))
            s2.add_lin(ge(Lin.var(q), 0))
            s2.epoch += 1
            shape = reader_shape(self.ctx, callee)
            if shape is None:
                return [(s2, Num(Lin.var(q)))]
            # (Q, number of symbols actually read): 0 <= read <= requested
            k = ("nread", n)
            s2.add_lin(ge(Lin.var(k), 0))
            want = [v for v in bound.values() if isinstance(v, Num)]
            if len(want) == 1:
                s2.add_lin(le(Lin.var(k), want[0].lin))
            items = [Num(Lin.var(k)), Num(Lin.var(k))]
            items[shape] = Num(Lin.var(q))
            return [(s2, Tup(items))]
        if callee is R["D"] and under(fr, R["D"]):
            bound = eng.bind_args(callee, args, kwargs) or {}
            n = next(eng.counter)
            r = ("nrec", n)
            s2 = self.tag(st, Event("recurse", {"args": bound, "ret": r}, node))
            s2.add_lin(ge(Lin.var(r), 0))
            s2.epoch += 1
            return [(s2, Num(Lin.var(r)))]
        if hasattr(callee, "is_property") and callee.cls is not None and callee.cls.name == "MolecularGraph" and under(fr, R["D"]):
            bound = eng.bind_args(callee, args[1:], kwargs, skip_self=True) or {}
            if callee.name in ("add_atom", "add_bond", "add_ring_bond", "update_bond_order", "add_placeholder_bond"):
                s2 = self.tag(st, Event(callee.name, {"args": bound, "self": args[0]}, node))
                s2.epoch += 1
                if callee.name == "add_atom":
                    a = bound.get("atom")
                    return [(s2, a if a is not None else Unk(eng.fresh("atom")))]
                return [(s2, Unk(eng.fresh(callee.name)))]
            if callee.name == "get_atom":
                term = ("got-atom", next(eng.counter))
                s2 = self.tag(st, Event("get_atom", {"idx": bound.get(callee.posparams[1]), "ret": term}, node))
                return [(s2, Unk(term))]
            return None
        if isinstance(callee, tuple) and callee[0] == "ext" and callee[1] == "builtins.next" and fr.func is R["D"] \
                and fr.depth == 0 and len(args) in (1, 2):
            s2 = self.tag(st, Event("next", {"iter": args[0]}, node))
            s2.epoch += 1
            out = [(s2, Unk(("next", vkey(args[0]), next(eng.counter))))]
            if len(args) == 1:
                eng._raise(fr, node, "StopIteration", st)
            else:
                # next(it, default): the exhausted iterator yields the default instead of raising
                s3 = st.copy()
                s3.epoch += 1
                out.append((s3, args[1]))
            return out
        if isinstance(callee, tuple) and callee[0] == "method" and callee[1] in ("append", "extend", "insert") \
                and under(fr, R["D"]):
            base = callee[2]
            if isinstance(base, Unk) and base.term == ("param", R["D"].qual, R["queue"]):
                s2 = self.tag(st, Event("queue", {"value": args[-1] if args else None, "op": callee[1]}, node))
                s2.epoch += 1
                return [(s2, NONE)]
        return None


def fold_tables(ctx):
    """ranges of the folded symbol tables (E5) used as facts about table look-ups"""
    fo = ctx.fold
    br = __import__("rules.symlang", fromlist=["x"]).symbol_table(ctx, "branch")
    rg = __import__("rules.symlang", fromlist=["x"]).symbol_table(ctx, "ring")
    if not br or not rg:
        raise AnalysisError("branch/ring tables fold to empty")
    def rng(vals):
        vals = list(vals)
        if not all(isinstance(v, int) and not isinstance(v, bool) for v in vals):
            raise AnalysisError("non-integer entry in a folded symbol table: %r" % (vals[:3],))
        return (min(vals), max(vals))
    out = {"branch": br, "ring": rg,
           "branch_ranges": (rng(v[0] for v in br.values()), rng(v[1] for v in br.values())),
           "ring_ranges": (rng(v[0] for v in rg.values()), rng(v[1] for v in rg.values()))}
    out["atom_orders"] = atom_order_range(ctx)
    return out


def atom_order_range(ctx):
    """orders that a SELFIES atom symbol can carry: fold smiles_to_bond over the finite language of the
    bond-character group of the decoder's atom pattern"""
    import re._parser as sre
    from sa.fold import FPattern, FFunc
    fo = ctx.fold
    from rules.symlang import atom_pattern_name
    pat = fo.global_value(*atom_pattern_name(ctx))
    if not isinstance(pat, FPattern):
        raise AnalysisError("SELFIES_ATOM_PATTERN does not fold to a compiled pattern")
    tree = sre.parse(pat.pattern)
    group1 = None
    for op, av in tree:
        if op is sre.SUBPATTERN and av[0] == 1:
            group1 = av[3]
    if group1 is None:
        raise AnalysisError("atom pattern has no group 1")
    lang = finite_language(group1)
    if lang is None or len(lang) > 64:
        raise AnalysisError("bond-character group of the atom pattern is not a small finite language")
    f = ctx.fn("selfies.utils.smiles_utils.smiles_to_bond")
    orders = []
    for c in sorted(lang):
        v = fo.call_function(f, [c], {})
        if not (isinstance(v, tuple) and len(v) == 2):
            raise AnalysisError("smiles_to_bond does not fold to a pair for %r" % c)
        orders.append(v[0])
    if not all(isinstance(o, int) for o in orders):
        raise AnalysisError("non-integer bond order for an atom symbol prefix: %r" % orders)
    ctx.cache["atom_prefix_orders"] = dict(zip(sorted(lang), orders))
    return (min(orders), max(orders))


def finite_language(seq):
    """finite language of a regex AST fragment (list of (op, av)), or None if infinite/unsupported"""
    import re._parser as sre
    langs = {""}
    for op, av in seq:
        if op is sre.LITERAL:
            cur = {chr(av)}
        elif op is sre.IN:
            cur = set()
            for o2, a2 in av:
                if o2 is sre.LITERAL:
                    cur.add(chr(a2))
                elif o2 is sre.RANGE and a2[1] - a2[0] < 64:
                    cur |= {chr(c) for c in range(a2[0], a2[1] + 1)}
                else:
                    return None
        elif op in (sre.MAX_REPEAT, sre.MIN_REPEAT):
            lo, hi, sub = av
            if hi is sre.MAXREPEAT or hi > 4:
                return None
            inner = finite_language(sub)
            if inner is None:
                return None
            cur = set()
            for n in range(lo, hi + 1):
                acc = {""}
                for _ in range(n):
                    acc = {a + b for a in acc for b in inner}
                cur |= acc
        elif op is sre.SUBPATTERN:
            cur = finite_language(av[3])
            if cur is None:
                return None
        elif op is sre.BRANCH:
            cur = set()
            for alt in av[1]:
                l = finite_language(alt)
                if l is None:
                    return None
                cur |= l
        else:
            return None
        langs = {a + b for a in langs for b in cur}
        if len(langs) > 4096:
            return None
    return langs


def extract(ctx):
    """run the engine on the derivation function; returns dict with roles, hooks, frame"""
    if "decmodel" in ctx.cache:
        return ctx.cache["decmodel"]
    roles = find_roles(ctx)
    tables = fold_tables(ctx)
    hooks = DecHooks(ctx, roles, tables)
    eng = Engine(ctx, hooks)
    D = roles["D"]
    budget = roles["budget"]
    args = {budget: Num(Lin.var("X0")), roles["root"]: Unk(("root",))}

    def pre(env):
        return [("lin",) + ge(Lin.var("X0"), 0)]
    fr = eng.run_function(D, args, assumptions=pre)
    if hooks.main_loop is None:
        raise AnalysisError("main derivation loop not found in %s" % D.qual)
    res = dict(roles=roles, tables=tables, hooks=hooks, frame=fr, engine=eng)
    # budget / previous-atom variables: locals initialised from the role parameters
    res["budget_var"] = _var_from_param(D, budget, hooks.main_loop["syms"])
    res["prev_var"] = _var_from_param(D, roles["root"], hooks.main_loop["syms"])
    ctx.cache["decmodel"] = res
    return res


def _var_from_param(D, param, syms):
    if param in syms:
        return param
    for st in D.node.body:
        if isinstance(st, ast.Assign) and isinstance(st.value, ast.Name) and st.value.id == param:
            for t in st.targets:
                if isinstance(t, ast.Name) and t.id in syms:
                    return t.id
    raise AnalysisError("loop-carried variable initialised from parameter %s not found in %s" % (param, D.qual))


# ----------------------------------------------------------------------------- iteration summaries
class Iter:
    """one path through the main loop body"""

    def __init__(self, m, st, is_back):
        self.m = m
        self.st = st
        self.is_back = is_back
        self.tags = st.tags
        syms = m["hooks"].main_loop["syms"]
        self.i = Lin.var(syms[m["budget_var"]])
        self.prev_head_key = ("unk", syms[m["prev_var"]])
        self.new = st.env.get(m["budget_var"]) if is_back else None
        self.prev_new = st.env.get(m["prev_var"]) if is_back else None
        self.kind = "end"
        self.proc = None
        for e in self.tags:
            if e.kind in ("P-atom", "P-branch", "P-ring"):
                self.kind = e.kind[2:]
                self.proc = e
        if self.proc is None and any(e.kind == "next" for e in self.tags):
            self.kind = "other"

    def events(self, kind):
        return [e for e in self.tags if e.kind == kind]

    def ent(self, con):
        return self.st.entails(con)

    def where(self):
        for e in reversed(self.tags):
            if e.node is not None:
                return e.node
        return self.m["hooks"].main_loop["node"]

    def describe(self):
        return "%s path [%s]%s" % (self.kind, ", ".join(e.kind for e in self.tags), "" if self.is_back else " -> stop")


def iterations(m):
    ml = m["hooks"].main_loop
    return [Iter(m, s, True) for s in ml["back"]] + [Iter(m, s, False) for s in ml["breaks"]]


def num_of(v):
    from sa.sym import Num, Unk, Con
    if isinstance(v, Num):
        return v.lin
    if isinstance(v, Unk):
        return Lin.var(v.term)
    return None


def idx_terms(st, lin, owner_key):
    """terms ('attr', owner_key, 'index', epoch) occurring in lin or in the facts of st"""
    out = set()
    pools = [lin.terms()] if lin is not None else []
    pools += [l.terms() for l, _ in st.lin]
    for ts in pools:
        for t in ts:
            if isinstance(t, tuple) and len(t) == 4 and t[0] == "attr" and t[1] == owner_key and t[2] == "index":
                out.add(t)
    return out
