"""C17, decoder direction: truthfulness of the reported positions, decided with ghost counters.

A ghost variable is an analysis-only counter kept in the abstract state next to the program's variables; the
client hooks update it at the events it counts (a symbol taken from the iterator, a token appended to the
output list) and the engine infers the loop invariants that relate program counters to it (relational
Houdini candidates x - y == k).  The rules then ask for *entailment* of an equality at the construct that
reports a position, on every path:

TI1 the index reader reports how many symbols it took, or always takes exactly the number requested
TI2 the derivation function returns exactly the number of symbols it consumed from the iterator (induction
    over the recursive call), and returns only when the iterator is exhausted or the budget is used up
TI3 decoder(): the offset handed to the derivation of fragment k is the sum of the counts returned for the
    earlier fragments; the budget of the top-level call is infinite; the iterator is enumerate(G(fragment))
    with no start argument
TI4 every Attribution built in the derivation pairs the enumerate index and the symbol of one and the same
    item, adds the unmodified offset parameter, and the recursion hands the offset down unchanged
TC1 every atom / bond added by the derivation gets an attribution entry built from the enclosing-branch stack
    plus the current symbol; the recursion extends the stack by the branch symbol
TO1 writer: every AttributionMap index equals (total length of the tokens appended so far) - 1 + offset,
    evaluated right after the token itself was appended; its attribution is the one stored for the object the
    token was printed from
TO2 mol_to_smiles: the offset of fragment k is the length of the output before it, separators included
"""
import ast

from sa import AnalysisError
from sa.db import own_nodes, unparse
from sa.lin import Lin, ge, le, eq
from sa.sym import Engine, Hooks, Num, Con, Tup, Obj, Unk, Ref, State, vkey, NONE
from rules.decmodel import under as _under

GHOST = "$consumed"


def _tag(st, t):
    s2 = st.copy()
    s2.tags = st.tags + (t,)
    return s2


def _bump(st, name, lin):
    st.env[name] = Num(st.env[name].lin + lin)


class NextModel(Hooks):
    """next(it) takes one item (ghost + 1) or raises StopIteration and marks the iterator exhausted"""

    def model_next(self, eng, fr, node, args, st):
        ex = _tag(st, ("exhausted",)) if ("exhausted",) not in st.tags else st
        if len(args) == 1:
            eng._raise(fr, node, "StopIteration", ex)
        if ("exhausted",) in st.tags:
            return [(ex, args[1])] if len(args) == 2 else []
        n = next(eng.counter)
        s2 = st.copy()
        s2.epoch += 1
        _bump(s2, GHOST, Lin.const(1))
        s2.tags = s2.tags + (("took", n),)
        out = [(s2, Tup([Num(Lin.var(("idx", n))), Unk(("sym", n))]))]
        if len(args) == 2:
            out.append((ex, args[1]))
        return out

    def on_iter(self, eng, fr, node, iterable, st, end=False):
        # `for _ in symbol_iter:` takes one symbol per iteration, exactly like next(symbol_iter); its normal exit is the
        # exhausted iterator
        D = getattr(self, "D", None)
        itp = getattr(self, "iter_param", None)
        if D is not None and itp is not None and _under(fr, D) and vkey(iterable) == ("unk", ("param", D.qual, itp)):
            if end:
                return _tag(st, ("exhausted",)) if ("exhausted",) not in st.tags else st
            if ("exhausted",) in st.tags:
                return False
            s2 = st.copy()
            s2.epoch += 1
            _bump(s2, GHOST, Lin.const(1))
            return s2
        return None

    @staticmethod
    def is_next(callee):
        return isinstance(callee, tuple) and callee[0] == "ext" and callee[1] == "builtins.next"


def _ghost_state():
    st = State()
    st.env[GHOST] = Num(Lin.const(0))
    return st


# ----------------------------------------------------------------------------- TI1
def reader_summary(ctx, rep, R, RULE):
    """how the index reader accounts for the symbols it takes"""
    itp = cnt = None
    for n in own_nodes(R.node):
        if not isinstance(n, ast.Call):
            continue
        fn = unparse(n.func).split(".")[-1]
        if fn == "next" and n.args and isinstance(n.args[0], ast.Name) and n.args[0].id in R.params:
            itp = n.args[0].id
        elif fn == "range":
            for a in n.args:
                if isinstance(a, ast.Name) and a.id in R.params:
                    cnt = a.id
        elif fn == "islice" and len(n.args) >= 2 and isinstance(n.args[0], ast.Name) and n.args[0].id in R.params:
            itp = n.args[0].id
            if isinstance(n.args[1], ast.Name) and n.args[1].id in R.params:
                cnt = n.args[1].id
    if itp is None or cnt is None:
        raise AnalysisError("index reader %s: iterator / count parameters not identified" % R.qual)

    class H(NextModel):
        def on_call(self, eng, fr, node, callee, args, kwargs, st):
            if self.is_next(callee) and args and vkey(args[0]) == ("unk", ("param", R.qual, itp)):
                return self.model_next(eng, fr, node, args, st)
            return None
    def attempt(nval, assumptions=None):
        eng = Engine(ctx, H())
        fr = eng.run_function(R, {cnt: Num(nval)}, state=_ghost_state(), assumptions=assumptions)
        pair_idx = set()
        exact = True
        common = None          # components that equal the ghost on EVERY return path
        for s, v in fr.returns:
            g = s.env[GHOST].lin
            if isinstance(v, Tup) and len(v.items) == 2:
                hit = {i for i, x in enumerate(v.items) if isinstance(x, Num) and s.entails(eq(x.lin - g, 0))}
                common = hit if common is None else (common & hit)
            else:
                pair_idx.add("single")
            if not s.entails(eq(g - nval, 0)):
                exact = False
        if common is not None:
            pair_idx.add(min(common) if len(common) >= 1 and "single" not in pair_idx else None)
            if len(common) == 2:
                pair_idx = {"either"}
        return pair_idx, exact, bool(fr.returns)
    # first for a symbolic request size; if that is not conclusive, for every size the ring / branch tables can ask for
    pair_idx, exact, any_ret = attempt(Lin.var("N"), lambda env: [("lin",) + ge(Lin.var("N"), 0)])
    decided_for = "any requested number"
    if pair_idx == {"either"}:
        pair_idx = {None}
    if not (exact or pair_idx in ({0}, {1})):
        from rules import decmodel
        tables = decmodel.fold_tables(ctx)
        arities = sorted({v[1] for v in tables["branch"].values()} | {v[1] for v in tables["ring"].values()})
        merged, all_exact = None, True
        for n in arities:
            pi, ex, anyr = attempt(Lin.const(n))
            cand = {0, 1} if pi == {"either"} else ({i for i in pi if i in (0, 1)} if pi <= {0, 1} else set())
            merged = cand if merged is None else (merged & cand)
            all_exact = all_exact and ex
        pair_idx = {min(merged)} if merged and len(merged) == 1 else ({"single"} if merged is None else {None})
        exact = all_exact
        decided_for = "each request size the ring / branch tables allow (%s)" % arities
    summ = {"it": itp, "cnt": cnt, "exact": exact, "count_index": None, "pair": False}
    if pair_idx == {0} or pair_idx == {1}:
        summ["pair"] = True
        summ["count_index"] = pair_idx.pop()
    elif pair_idx - {"single"}:
        summ["pair"] = True            # returns a pair, but no component is provably the number taken
    ok = exact or summ["count_index"] is not None
    rep.ob(RULE, ok, R.node, R, construct="symbols taken by the index reader %s" % R.name,
           how=("returns the number of symbols it took (component %s of its result)" % summ["count_index"] if summ["count_index"] is not None
                else "always takes exactly the requested number") + ", for " + decided_for,
           witness=None if ok else "the index reader swallows the end of the input: it can take fewer symbols than requested "
                                   "without telling its caller, which then over-counts the symbols of the fragment "
                                   "(wrong input positions in every later fragment, e.g. '[C][Branch1].[C]')",
           nontrivial=True, key="reader-count")
    return summ


# ----------------------------------------------------------------------------- TI2, TI4, TC1
class DeriveHooks(NextModel):
    def __init__(self, ctx, roles, summ):
        self.ctx = ctx
        self.R = roles["index_reader"]
        self.D = roles["D"]
        self.iter_param = roles.get("iter")
        self.summ = summ
        self.attr_calls = []      # (node, args, kwargs, state, frame depth)
        self.attr_objs = {}       # attribution object number -> (index value, token value)
        self.rec_calls = []
        self.graph_events = []
        self.main_loop = None

    def on_loop(self, eng, fr, node, syms, entered, back, exits, breaks):
        if fr.func is self.D and fr.depth == 0 and self.main_loop is None:
            self.main_loop = dict(node=node, back=back, breaks=breaks)

    def on_loop_head(self, eng, fr, node, head):
        if fr.func is self.D and fr.depth == 0:
            head.tags = tuple(t for t in head.tags if t[0] == "exhausted")
        return head

    def on_call(self, eng, fr, node, callee, args, kwargs, st):
        D, R = self.D, self.R
        if self.is_next(callee) and args and fr.func is D and fr.depth == 0:
            return self.model_next(eng, fr, node, args, st)
        if callee is R and _under(fr, D):
            bound = eng.bind_args(callee, args, kwargs) or {}
            want = bound.get(self.summ["cnt"])
            if not isinstance(want, Num):
                raise AnalysisError("index reader called with a non-numeric symbol count at %s" % fr.func.loc(node))
            n = next(eng.counter)
            q = Lin.var(("Q", n))
            out = []
            # all requested symbols were there / the input ended while reading
            for short in (False, True):
                if short and ("exhausted",) in st.tags:
                    pass
                s2 = st.copy()
                s2.epoch += 1
                s2.add_lin(ge(q, 0))
                if not short:
                    if ("exhausted",) in st.tags:
                        continue
                    k = want.lin
                else:
                    k = Lin.var(("k", n))
                    s2.add_lin(ge(k, 0))
                    s2.add_lin(le(k, want.lin - Lin.const(1)))
                    if ("exhausted",) not in s2.tags:
                        s2.tags = s2.tags + (("exhausted",),)
                if not s2.feasible():
                    continue
                _bump(s2, GHOST, k)
                if self.summ["count_index"] is not None:
                    items = [Num(q), Num(q)]
                    items[self.summ["count_index"]] = Num(k)
                    out.append((s2, Tup(items)))
                elif self.summ["pair"]:
                    out.append((s2, Tup([Unk(eng.fresh("r0")), Unk(eng.fresh("r1"))])))
                else:
                    out.append((s2, Num(q)))
            return out
        if callee is D and _under(fr, D):
            bound = eng.bind_args(callee, args, kwargs) or {}
            self.rec_calls.append((node, bound, st))
            n = next(eng.counter)
            r = Lin.var(("rec", n))
            s2 = st.copy()
            s2.epoch += 1
            s2.add_lin(ge(r, 0))
            _bump(s2, GHOST, r)
            return [(s2, Num(r))]
        if hasattr(callee, "qual") and getattr(callee, "name", "") == "Attribution":
            self.attr_calls.append((node, args, kwargs, st))
            n = next(eng.counter)
            a = list(args) + [None, None]
            idx = kwargs.get("index", a[0])
            tok = kwargs.get("token", a[1])
            self.attr_objs[n] = (idx, tok)
            return [(st, Obj(("attribution", n), callee.qual, {"index": idx, "token": tok}))]
        if hasattr(callee, "cls") and callee.cls is not None and callee.cls.name == "MolecularGraph" and _under(fr, D):
            bound = eng.bind_args(callee, args[1:], kwargs, skip_self=True) or {}
            if callee.name in ("add_atom", "add_bond", "add_ring_bond", "add_attribution"):
                n = next(eng.counter)
                ret = Unk(("graph-ret", callee.name, n))
                s2 = st.copy()
                s2.epoch += 1
                s2.tags = s2.tags + (("graph", callee.name, n, node, tuple(sorted((k, vkey(v)) for k, v in bound.items()))),)
                self.graph_events.append((callee.name, n, node, bound, s2))
                return [(s2, ret)]
        return None


def check_derivation(ctx, rep, roles, summ, R2, R4, RC):
    D = roles["D"]
    h = DeriveHooks(ctx, roles, summ)
    eng = Engine(ctx, h)
    st = _ghost_state()
    # the budget parameter of the branch recursion: the one compared with the returned counter
    fr = eng.run_function(D, {_budget_param(roles): Num(Lin.var("M"))}, state=st)
    M = Lin.var("M")
    n_ret = 0
    bad_count, bad_stop = [], []
    for s, v in fr.returns:
        n_ret += 1
        g = s.env[GHOST].lin
        if not (isinstance(v, Num) and s.entails(eq(v.lin - g, 0))):
            bad_count.append((s, v))
        elif not (("exhausted",) in s.tags or s.entails(ge(v.lin - M, 0))):
            bad_stop.append((s, v))
    if not n_ret:
        raise AnalysisError("derivation function %s has no return path" % D.qual)
    rets = [r for r in own_nodes(D.node) if isinstance(r, ast.Return)]
    where = rets[-1] if rets else D.node
    rep.ob(R2, not bad_count, where, D, construct="count returned by %s (%d return paths)" % (D.name, n_ret),
           how="equals the number of symbols taken from the iterator on every path (ghost counter, inductive over the recursion)",
           witness=None if not bad_count else "the returned symbol count can differ from the number of symbols actually consumed: "
                                               "the offset of the next fragment is wrong",
           nontrivial=True, key="derive-count")
    rep.ob(R2, not bad_stop, where, D, construct="exits of %s" % D.name,
           how="returns only when the iterator is exhausted or the symbol budget is used up",
           witness=None if not bad_stop else "the derivation can return with unread symbols left and budget to spare: "
                                              "later fragments are attributed to positions that are too small",
           nontrivial=True, key="derive-exhausts")
    # ---- TI4: Attribution(index + offset, symbol) of one item; offset handed down unchanged
    offp = roles.get("offset")
    n_attr = 0
    agg = {}
    for node, args, kwargs, s in h.attr_calls:
        n_attr += 1
        a = list(args) + [None, None]
        idx = kwargs.get("index", a[0])
        tok = kwargs.get("token", a[1])
        probs = []
        item = None
        if isinstance(tok, Unk) and isinstance(tok.term, tuple) and tok.term[0] == "sym":
            item = tok.term[1]
        else:
            probs.append("the attributed token is not the symbol read from the iterator")
        if not isinstance(idx, Num):
            probs.append("the attributed position is not numeric")
        elif item is not None:
            want = Lin.var(("idx", item)) + Lin.var(("param", D.qual, offp))
            if not s.entails(eq(idx.lin - want, 0)):
                probs.append("the attributed position is not (enumerate index of this symbol) + (fragment offset)")
        took = [t[1] for t in s.tags if t[0] == "took"]
        if item is not None and (not took or took[-1] != item) and not _main_item(s, item):
            probs.append("the attributed symbol is not the one being derived")
        agg.setdefault((node.lineno, tuple(probs)), node)
    for (ln, probs), node in sorted(agg.items(), key=lambda kv: kv[0][0]):
        rep.ob(R4, not probs, node, D, construct=unparse(node)[:70], how="position and symbol of the same enumerate item, plus the offset parameter",
               witness="; ".join(probs) or None, nontrivial=True, key="attr/%s" % ("ok" if not probs else probs[0][:50]))
    for node, bound, s in h.rec_calls:
        v = bound.get(offp)
        ok = v is not None and vkey(v) == ("unk", ("param", D.qual, offp))
        rep.ob(R4, ok, node, D, construct="offset handed to the branch recursion", how="the unmodified offset parameter",
               witness=None if ok else "the recursive call receives a different fragment offset", key="rec-offset", nontrivial=True)
        it = bound.get(roles.get("iter"))
        ok = it is not None and vkey(it) == ("unk", ("param", D.qual, roles.get("iter")))
        rep.ob(R4, ok, node, D, construct="iterator handed to the branch recursion", how="the same iterator",
               witness=None if ok else "the branch is derived from a different iterator: positions restart", key="rec-iter")
    return h, fr, n_attr


def _main_item(s, item):
    """item is the last symbol taken by the main loop (index symbols are read by the reader, not by next here)"""
    took = [t[1] for t in s.tags if t[0] == "took"]
    return bool(took) and took[-1] == item


def attrib_roles(ctx, roles):
    """parameters of the derivation function by what decoder() passes: offset (a counter that decoder() advances in
    its fragment loop), iterator (an enumerate(...) call) and the enclosing-branch stack (a list-or-None selection)"""
    D, call = roles["D"], roles["top_call"]
    dec = ctx.api("decoder")
    aug = _loop_counters(dec, call)
    pairs = list(zip(D.posparams, call.args)) + [(k.arg, k.value) for k in call.keywords]
    def resolve(a):
        """a local bound exactly once in decoder() stands for the expression it was bound to"""
        if isinstance(a, ast.Name) and a.id not in aug:
            defs = [n.value for n in own_nodes(dec.node) if isinstance(n, ast.Assign) and len(n.targets) == 1
                    and isinstance(n.targets[0], ast.Name) and n.targets[0].id == a.id]
            if len(defs) == 1:
                return defs[0]
        return a
    for p, a in pairs:
        if isinstance(a, ast.Name) and a.id in aug:
            roles["offset"] = p
            roles["offset_local"] = a.id
            continue
        a = resolve(a)
        if isinstance(a, ast.Call) and isinstance(a.func, ast.Name) and a.func.id == "enumerate":
            roles["iter"] = p
            roles["iter_expr"] = a
        if isinstance(a, ast.IfExp) and isinstance(a.orelse, ast.Constant) and a.orelse.value is None and isinstance(a.body, ast.List):
            roles["stack"] = p
    for need in ("offset", "iter", "stack"):
        if need not in roles:
            raise AnalysisError("attribution role '%s' of %s not identified from the call in decoder()" % (need, D.qual))
    return roles


def _loop_counters(f, call):
    """locals initialised with an integer constant and rebound inside the loop that contains `call`"""
    loops = [l for l in own_nodes(f.node) if isinstance(l, (ast.For, ast.While)) and any(x is call for x in ast.walk(l))]
    if not loops:
        return set()
    init = {t.id for n in own_nodes(f.node) if isinstance(n, ast.Assign) and isinstance(n.value, ast.Constant)
            and isinstance(n.value.value, int) and not isinstance(n.value.value, bool) for t in n.targets if isinstance(t, ast.Name)}
    rebound = set()
    for n in ast.walk(loops[0]):
        if isinstance(n, ast.AugAssign) and isinstance(n.target, ast.Name):
            rebound.add(n.target.id)
        elif isinstance(n, ast.Assign):
            rebound |= {t.id for t in n.targets if isinstance(t, ast.Name)}
    return init & rebound


def check_coverage(ctx, rep, roles, h, RC):
    """TC1 on every path through one iteration of the main loop"""
    D = roles["D"]
    if h.main_loop is None:
        raise AnalysisError("main loop of %s not summarised" % D.qual)
    stackkey = ("unk", ("param", D.qual, roles["stack"]))
    agg = {}
    n_ev = 0
    for s in h.main_loop["back"] + h.main_loop["breaks"]:
        gt = [t for t in s.tags if t[0] == "graph"]
        took = [t[1] for t in s.tags if t[0] == "took"]
        cur = took[0] if took else None      # the symbol taken by the main loop in this iteration
        for i, t in enumerate(gt):
            _, name, n, node, bound = t
            if name not in ("add_atom", "add_bond"):
                continue
            n_ev += 1
            b = dict(bound)
            probs = []
            later = [u for u in gt[i + 1:] if u[1] == "add_attribution" and dict(u[4]).get("o") == ("unk", ("graph-ret", name, n))]
            if not later:
                probs.append("the %s created here gets no attribution entry on some path" % name[4:])
            else:
                a = dict(later[0][4]).get("attr")
                if a == ("con", "None"):
                    pass        # attribution switched off (stack is None)
                elif isinstance(a, tuple) and a[0] == "unk" and isinstance(a[1], tuple) and a[1][0] == "concat" and a[1][1] == stackkey \
                        and a[1][2][0] == "tup" and len(a[1][2][1]) == 1 and a[1][2][1][0][0] == "obj" and a[1][2][1][0][1][0] == "attribution":
                    idx, tok = h.attr_objs[a[1][2][1][0][1][1]]
                    if not (isinstance(tok, Unk) and tok.term == ("sym", cur)):
                        probs.append("the %s is attributed to a symbol other than the one that created it" % name[4:])
                else:
                    probs.append("the attribution of the %s is not (enclosing branch symbols) + [this symbol]" % name[4:])
            agg.setdefault((node.lineno, name, tuple(probs)), node)
    for (ln, name, probs), node in sorted(agg.items(), key=lambda kv: kv[0][0]):
        rep.ob(RC, not probs, node, D, construct="%s at line %d" % (name, ln), how="followed on every path by add_attribution(result, stack + [Attribution(this symbol)])",
               witness="; ".join(probs) or None, nontrivial=True, key="cover/%s/%s" % (name, "ok" if not probs else probs[0][:50]))
    if not n_ev:
        raise AnalysisError("no atom / bond creation seen in the main loop of %s" % D.qual)
    # the recursion extends the stack by the branch symbol being derived
    for node, bound, s in h.rec_calls:
        v = bound.get(roles["stack"])
        took = [t[1] for t in s.tags if t[0] == "took"]
        cur = took[0] if took else None
        k = vkey(v) if v is not None else None
        ok = False
        if k == ("con", "None"):
            ok = True
        elif k and k[0] == "unk" and isinstance(k[1], tuple) and k[1][0] == "concat" and k[1][1] == stackkey and k[1][2][0] == "tup" \
                and len(k[1][2][1]) == 1 and k[1][2][1][0][0] == "obj" and k[1][2][1][0][1][0] == "attribution":
            idx, tok = h.attr_objs[k[1][2][1][0][1][1]]
            ok = isinstance(tok, Unk) and tok.term == ("sym", cur)
        rep.ob(RC, ok, node, D, construct="stack handed to the branch recursion", how="enclosing stack + [Attribution(this branch symbol)]",
               witness=None if ok else "atoms of a branch are not attributed to the branch symbol that encloses them", nontrivial=True,
               key="rec-stack/%s" % ("ok" if ok else "bad"))


# ----------------------------------------------------------------------------- TI3
def check_fragment_offsets(ctx, rep, roles, RULE):
    dec = ctx.api("decoder")
    D = roles["D"]
    GS = "$symbols"
    seen = []

    class H(Hooks):
        def on_call(self, eng, fr, node, callee, args, kwargs, st):
            if callee is D and fr.func is dec:
                bound = eng.bind_args(callee, args, kwargs) or {}
                seen.append((node, bound, st))
                n = next(eng.counter)
                r = Lin.var(("count", n))
                s2 = st.copy()
                s2.epoch += 1
                s2.add_lin(ge(r, 0))
                s2.env[GS] = Num(s2.env[GS].lin + r)
                return [(s2, Num(r))]
            return None
    hh = H()
    backs = []
    hh.on_loop = lambda eng, fr, node, syms, entered, back, exits, breaks: backs.append(len(back)) if fr.func is dec else None
    eng = Engine(ctx, hh)
    st = State()
    st.env[GS] = Num(Lin.const(0))
    eng.run_function(dec, {}, state=st)
    if not seen:
        raise AnalysisError("decoder(): call of the derivation function not reached")
    if not backs or not any(backs):
        raise AnalysisError("decoder(): no path of the abstract run completes an iteration of the fragment loop (model lost)")
    agg = {}
    for node, bound, s in seen:
        probs = []
        off = bound.get(roles["offset"])
        if not (isinstance(off, Num) and s.entails(eq(off.lin - s.env[GS].lin, 0))):
            probs.append("the fragment offset is not the total of the symbol counts returned for the earlier fragments")
        bud = bound.get(_budget_param(roles))
        if not (isinstance(bud, Con) and bud.value == float("inf")):
            probs.append("the top-level derivation has a finite symbol budget: it may return before the fragment is exhausted")
        agg.setdefault(tuple(probs), node)
    for probs, node in agg.items():
        rep.ob(RULE, not probs, node, dec, construct="offset passed for each fragment", how="sum of the counts returned so far (ghost counter + loop invariant)",
               witness="; ".join(probs) or None, nontrivial=True, key="frag-offset/%s" % ("ok" if not probs else probs[0][:50]))
    # the iterator: enumerate(G(fragment)) without a start argument, fragment from split(".")
    e = roles["iter_expr"]
    src = e.args[0] if len(e.args) == 1 else None
    if isinstance(src, ast.Name):
        # a local bound once (per iteration) to the generator call:  symbols = G(fragment);  enumerate(symbols)
        binds = [x for x in own_nodes(dec.node) if isinstance(x, ast.Assign) and any(isinstance(t, ast.Name) and t.id == src.id for t in x.targets)]
        others = [x for x in own_nodes(dec.node) if isinstance(x, ast.Name) and x.id == src.id and isinstance(x.ctx, ast.Store)]
        if len(binds) == 1 and len(others) == 1:
            src = binds[0].value
    ok = len(e.args) == 1 and not e.keywords and isinstance(src, ast.Call)
    gen = None
    if ok:
        site = [x for x in ctx.cg.sites(dec) if x.node is src]
        gen = site[0].callees[0] if site and site[0].callees else None
        ok = gen is not None and gen.is_generator
    rep.ob(RULE, ok, e, dec, construct=unparse(e)[:70], how="enumerate from 0 over the fragment's token generator (filtering: C13/N1)",
           witness=None if ok else "positions are not enumerate(<token generator>) counted from 0", key="enumerate-base", nontrivial=True)
    loops = [n for n in own_nodes(dec.node) if isinstance(n, ast.For) and any(x is roles["top_call"] for x in ast.walk(n))]
    ok = bool(loops) and isinstance(loops[0].iter, ast.Call) and isinstance(loops[0].iter.func, ast.Attribute) and loops[0].iter.func.attr == "split" \
        and len(loops[0].iter.args) == 1 and isinstance(loops[0].iter.args[0], ast.Constant) and loops[0].iter.args[0].value == "."
    rep.ob(RULE, ok, loops[0] if loops else dec.node, dec, construct="fragment loop", how="one derivation per '.'-separated fragment, in order",
           witness=None if ok else "fragments are not the '.'-separated pieces of the input in order", key="fragment-loop")


def _budget_param(roles):
    D = roles["D"]
    for p in D.params:
        if p not in (roles["budget"], roles["root"], roles["queue"], roles.get("graph"), roles.get("offset"), roles.get("iter"), roles.get("stack")):
            for n in own_nodes(D.node):
                if isinstance(n, ast.While) and any(isinstance(x, ast.Name) and x.id == p for x in ast.walk(n.test)):
                    return p
    raise AnalysisError("symbol budget parameter of %s not found" % D.qual)


# ----------------------------------------------------------------------------- TO1, TO2 (writer)
GLEN = "$len"


def writer_roles(ctx):
    top = ctx.fn("selfies.utils.smiles_utils.mol_to_smiles")
    aug = None
    fresh_lists = {}
    for n in own_nodes(top.node):
        if isinstance(n, ast.Assign) and len(n.targets) == 1 and isinstance(n.targets[0], ast.Name):
            v = n.value
            if (isinstance(v, ast.List) and not v.elts) or (isinstance(v, ast.Call) and unparse(v.func) == "list" and not v.args):
                fresh_lists[n.targets[0].id] = n
    roles = {"top": top}
    for site in ctx.cg.sites(top):
        if not isinstance(site.node, ast.Call) or not site.callees:
            continue
        g = site.callees[0]
        pairs = list(zip(g.posparams, site.node.args)) + [(k.arg, k.value) for k in site.node.keywords]
        aug = _loop_counters(top, site.node)
        off = [p for p, a in pairs if isinstance(a, ast.Name) and a.id in aug]
        lst = [(p, a.id) for p, a in pairs if isinstance(a, ast.Name) and a.id in fresh_lists]
        in_loop = any(isinstance(l, ast.For) and any(x is site.node for x in ast.walk(l)) for l in own_nodes(top.node))
        if off and lst and in_loop and g.cls is None:
            # the per-fragment list: the fresh list assigned inside the loop
            loops = [l for l in own_nodes(top.node) if isinstance(l, ast.For) and any(x is site.node for x in ast.walk(l))]
            inner = [(p, nm) for p, nm in lst if any(fresh_lists[nm] is x for x in ast.walk(loops[0]))]
            if inner:
                roles.update(W=g, W_call=site.node, offset=off[0], list=inner[0][0], list_local=inner[0][1], loop=loops[0],
                             offset_local=[a.id for p, a in pairs if p == off[0]][0])
    if "W" not in roles:
        raise AnalysisError("fragment writer not found: no call in mol_to_smiles' fragment loop receives a fresh list and the running offset")
    return roles


def _total_length_function(ctx, f):
    """f(list of str) -> total number of characters: ``len(''.join(p))`` or ``sum(len(x) for x in p)`` / ``sum(map(len, p))``"""
    if len(f.posparams) != 1:
        return False
    p = f.posparams[0]
    body = [st for st in f.node.body if not (isinstance(st, ast.Expr) and isinstance(st.value, ast.Constant))]
    if len(body) != 1 or not isinstance(body[0], ast.Return) or body[0].value is None:
        return False
    src = unparse(body[0].value).replace(" ", "").replace('"', "'")
    return src in ("len(''.join(%s))" % p, "sum(len(x)forxin%s)" % p, "sum(map(len,%s))" % p, "sum([len(x)forxin%s])" % p)


def _strlen_of(v):
    if isinstance(v, Con) and isinstance(v.value, str):
        return Lin.const(len(v.value))
    return None


class WriterHooks(Hooks):
    def __init__(self, ctx, W, listp):
        self.ctx = ctx
        self.W = W
        self.listkey = ("unk", ("param", W.qual, listp))
        self.maps = []

    def opaque_call(self, eng, fr, node, callee, args, kwargs, st):
        # token printers stay symbolic: token = printer(object); helpers that receive the output list are inlined
        if any(vkey(a) == self.listkey for a in list(args) + list(kwargs.values())):
            return False
        return getattr(callee, "cls", None) is None and not _total_length_function(self.ctx, callee)

    def on_call(self, eng, fr, node, callee, args, kwargs, st):
        if isinstance(callee, tuple) and callee[0] == "method" and vkey(callee[2]) == self.listkey:
            if callee[1] == "append" and len(args) == 1:
                ln = _strlen_of(args[0])
                s2 = st.copy()
                s2.epoch += 1
                if ln is None:
                    # the engine's own term for len(<this value>), so that program counters built from len() agree
                    t = ("len", vkey(args[0]), s2.epoch - 1 if not isinstance(args[0], (Unk, Con)) and not hasattr(args[0], "parts") else 0)
                    ln = Lin.var(t)
                    s2.add_lin(ge(ln, 0))
                _bump(s2, GLEN, ln)
                s2.tags = tuple(t for t in s2.tags if t[0] != "last") + (("last", vkey(args[0])),)
                return [(s2, NONE)]
            if callee[1] in ("extend", "insert", "pop", "clear", "remove", "__setitem__", "sort", "reverse"):
                raise AnalysisError("the writer changes its output list with .%s(): not modelled (%s)" % (callee[1], fr.func.loc(node)))
            return None
        if hasattr(callee, "qual") and hasattr(callee, "posparams") and args and vkey(args[0]) == self.listkey \
                and getattr(callee, "cls", None) is None and callee is not self.W:
            if _total_length_function(self.ctx, callee):
                return [(st, Num(st.env[GLEN].lin))]
            return None        # a helper working on the output list: inlined (its appends are counted like any other)
        if isinstance(callee, tuple) and callee[0] == "ext" and callee[1] == "builtins.len" and args and vkey(args[0]) == self.listkey:
            return [(st, Unk(eng.fresh("ntokens")))]
        if hasattr(callee, "qual") and getattr(callee, "name", "") == "AttributionMap":
            a = list(args) + [None, None, None]
            self.maps.append((node, kwargs.get("index", a[0]), kwargs.get("token", a[1]), kwargs.get("attribution", a[2]), st, fr))
            return [(st, Unk(("amap", next(eng.counter))))]
        return None


def check_writer(ctx, rep, R1, R2):
    wr = writer_roles(ctx)
    W, top = wr["W"], wr["top"]
    h = WriterHooks(ctx, W, wr["list"])
    eng = Engine(ctx, h)
    st = State()
    st.env[GLEN] = Num(Lin.const(0))       # the per-fragment list is fresh (checked in writer_roles)
    eng.run_function(W, {wr["offset"]: Num(Lin.var(("param", W.qual, wr["offset"])))}, state=st)
    if not h.maps:
        raise AnalysisError("no AttributionMap is built in %s" % W.qual)
    off = Lin.var(("param", W.qual, wr["offset"]))
    agg = {}
    for node, idx, tok, attr, s, fr in h.maps:
        probs = []
        want = s.env[GLEN].lin - Lin.const(1) + off
        if not (isinstance(idx, Num) and s.entails(eq(idx.lin - want, 0))):
            probs.append("the reported index is not (characters written so far) - 1 + (fragment offset)")
        last = [t[1] for t in s.tags if t[0] == "last"]
        if not last or tok is None or last[-1] != vkey(tok):
            probs.append("the reported token is not the token appended last: the index does not end at this token")
        # the attribution is the one stored for the object the token was printed from
        src = _printed_object(tok)
        ak = vkey(attr) if attr is not None else None
        if src is None or ak is None or not _attribution_of(ak, src, s, eng):
            probs.append("the attribution handed out is not the stored attribution of the atom / bond this token was printed from")
        agg.setdefault((node.lineno, tuple(probs)), node)
    for (ln, probs), node in sorted(agg.items(), key=lambda kv: kv[0][0]):
        rep.ob(R1, not probs, node, W, construct=unparse(node)[:70], how="index == total length of tokens appended - 1 + offset, right after appending the token",
               witness="; ".join(probs) or None, nontrivial=True, key="map/%s" % ("ok" if not probs else probs[0][:50]))
    # ---- TO2: offsets across fragments
    seps = []
    scopes = [top]
    rets = [r.value for r in own_nodes(top.node) if isinstance(r, ast.Return) and r.value is not None]
    for site in ctx.cg.sites(top):
        if any(site.node is x for rv in rets for x in ast.walk(rv)):
            scopes.extend(g for g in site.callees if g not in scopes and g.cls is None)   # return _join(fragments, ...)
    from sa.guards import module_str_consts
    for sc in scopes:
        consts = module_str_consts(sc)
        for n in own_nodes(sc.node):
            if isinstance(n, ast.Call) and isinstance(n.func, ast.Attribute) and n.func.attr == "join":
                if isinstance(n.func.value, ast.Constant) and isinstance(n.func.value.value, str):
                    seps.append((n, n.func.value.value))
                elif isinstance(n.func.value, ast.Name) and n.func.value.id in consts:
                    seps.append((n, consts[n.func.value.id]))      # a module-level string constant as separator
    frag_join = [(n, sp) for n, sp in seps if any(x is n for x in ast.walk(wr["loop"])) and n.args and isinstance(n.args[0], ast.Name)
                 and n.args[0].id == wr["list_local"]]
    out_join = [(n, sp) for n, sp in seps if not any(x is n for x in ast.walk(wr["loop"]))]
    if len(frag_join) != 1 or frag_join[0][1] != "" or len(out_join) != 1:
        raise AnalysisError("assembly of the output string in mol_to_smiles not recognised")
    seplen = len(out_join[0][1])
    GOUT = "$out"
    seen = []

    class TH(Hooks):
        def on_call(self, eng, fr, node, callee, args, kwargs, st):
            if callee is W and fr.func is top:
                bound = eng.bind_args(callee, args, kwargs) or {}
                seen.append((node, bound.get(wr["offset"]), st))
                n = next(eng.counter)
                r = Lin.var(("fraglen", n))
                s2 = st.copy()
                s2.epoch += 1
                s2.add_lin(ge(r, 0))
                s2.env[GLEN] = Num(r)
                s2.env[GOUT] = Num(s2.env[GOUT].lin + r + Lin.const(seplen))
                # the writer fills the lists it is handed: their contents are unknown afterwards
                if isinstance(node, ast.Call):
                    for a in list(node.args) + [k.value for k in node.keywords]:
                        if isinstance(a, ast.Name) and isinstance(s2.env.get(a.id), Tup):
                            s2.env[a.id] = Unk(eng.fresh("filled:" + a.id))
                return [(s2, Unk(eng.fresh("wret")))]
            if hasattr(callee, "posparams") and getattr(callee, "cls", None) is None and callee is not W and fr.func is top \
                    and isinstance(node, ast.Call) and len(node.args) == 1 and isinstance(node.args[0], ast.Name) \
                    and node.args[0].id == wr["list_local"] and _total_length_function(ctx, callee):
                return [(st, Num(st.env[GLEN].lin))]
            if isinstance(callee, tuple) and callee[0] == "method" and callee[1] == "join" and isinstance(callee[2], Con) and callee[2].value == "" \
                    and fr.func is top and isinstance(node, ast.Call) and len(node.args) == 1 and isinstance(node.args[0], ast.Name) \
                    and node.args[0].id == wr["list_local"]:
                # "".join(<fragment's token list>): a string whose length is the number of characters written
                v = Unk(("joined-fragment", next(eng.counter)))
                s2 = st.copy()
                s2.add_lin(eq(Lin.var(("len", vkey(v), 0)) - s2.env[GLEN].lin, 0))
                return [(s2, v)]
            return None
    th = TH()
    th.backs = []
    th.on_loop = lambda eng, fr, node, syms, entered, back, exits, breaks: th.backs.append(len(back)) if fr.func is top else None
    eng2 = Engine(ctx, th)
    st2 = State()
    st2.env[GLEN] = Num(Lin.const(0))
    st2.env[GOUT] = Num(Lin.const(0))
    eng2.run_function(top, {}, state=st2)
    if not seen:
        raise AnalysisError("mol_to_smiles: the call of the fragment writer is not reached")
    if not th.backs or not any(th.backs):
        raise AnalysisError("mol_to_smiles: no path of the abstract run completes an iteration of the fragment loop (model lost)")
    agg = {}
    for node, offv, s in seen:
        ok = isinstance(offv, Num) and s.entails(eq(offv.lin - s.env[GOUT].lin + Lin.const(0), 0))
        # $out was advanced after the check of this call only: compare with the value before the call
        agg.setdefault(ok, node)
    bad = False in agg
    rep.ob(R2, not bad, agg.get(False, agg.get(True)), top, construct="offset passed to the writer for each fragment",
           how="number of characters of the output before the fragment, %d per separator included" % seplen,
           witness=None if not bad else "the offset of a later fragment ignores the %r separator(s) written between the fragments: "
                                        "every reported index after the first fragment is too small" % out_join[0][1],
           nontrivial=True, key="frag-offset")
    return wr


def _printed_object(tok):
    """key of the atom / bond value a token was printed from: token = printer(obj)"""
    if isinstance(tok, Unk) and isinstance(tok.term, tuple) and tok.term and tok.term[0] == "call" and len(tok.term) >= 3 and tok.term[2]:
        return tok.term[2][0]
    return None


def _attribution_of(ak, src, s, eng):
    """ak is the value of get_attribution(<src>) (directly, or through a local bound before)"""
    def walk(k):
        if isinstance(k, tuple):
            if len(k) >= 4 and k[0] in ("mcall",) and k[1] == "get_attribution" and src in (list(k[3]) if isinstance(k[3], (list, tuple)) else []):
                return True
            return any(walk(x) for x in k)
        return False
    return walk(ak)


# ----------------------------------------------------------------------------- TE (encoder direction: token identity)
def _contains(k, needle):
    if k == needle:
        return True
    if isinstance(k, tuple):
        return any(_contains(x, needle) for x in k)
    return False


def _token_keys(k, out=None):
    out = set() if out is None else out
    if isinstance(k, tuple):
        if len(k) == 2 and k[0] == "obj" and isinstance(k[1], tuple) and k[1] and k[1][0] == "smiles-token":
            out.add(k)
        for x in k:
            _token_keys(x, out)
    return out


def check_parser_attribution(ctx, rep, RULE):
    """TE2: the attribution stored for an atom names the token the atom was parsed from"""
    s2m = ctx.fn("selfies.utils.smiles_utils.smiles_to_mol")
    P = None
    for site in ctx.cg.sites(s2m):
        for g in site.callees:
            if g.module is s2m.module and g.cls is None and any(
                    isinstance(n, ast.Call) and isinstance(n.func, ast.Attribute) and n.func.attr in ("popleft", "pop") for n in own_nodes(g.node)):
                P = g
    if P is None:
        raise AnalysisError("token-consuming parser function not found under smiles_to_mol")
    tokp = None
    for n in own_nodes(P.node):
        if isinstance(n, ast.Call) and isinstance(n.func, ast.Attribute) and n.func.attr in ("popleft", "pop") and isinstance(n.func.value, ast.Name) \
                and n.func.value.id in P.params:
            tokp = n.func.value.id
    if tokp is None:
        raise AnalysisError("token queue parameter of %s not found" % P.qual)
    add_attr = ctx.fn("selfies.mol_graph.MolecularGraph.add_attribution")
    reach = {g.qual for g in ctx.db.funcs.values() if add_attr.qual in ctx.cg.region(g)} if False else None
    events = []

    def reaches_attr(g):
        # functions that store an attribution, or that build the Attribution entries to be stored, are inlined
        try:
            reg = set(ctx.cg.region(g))
        except Exception:
            return False
        if add_attr.qual in reg:
            return True
        for q in reg | {g.qual}:
            h_ = ctx.db.funcs.get(q)
            if h_ is not None and h_.module is g.module and any(
                    isinstance(n, ast.Call) and unparse(n.func).split(".")[-1] == "Attribution" for n in own_nodes(h_.node)):
                return True
        return False

    class H(Hooks):
        def opaque_call(self, eng, fr, node, callee, args, kwargs, st):
            return getattr(callee, "cls", None) is None and hasattr(callee, "qual") and not reaches_attr(callee)

        def on_call(self, eng, fr, node, callee, args, kwargs, st):
            if isinstance(callee, tuple) and callee[0] == "method" and callee[1] in ("popleft", "pop") \
                    and vkey(callee[2]) == ("unk", ("param", P.qual, tokp)):
                n = next(eng.counter)
                s2 = st.copy()
                s2.epoch += 1
                return [(s2, Obj(("smiles-token", n), "selfies.utils.smiles_utils.SMILESToken", {}))]
            if hasattr(callee, "cls") and callee.cls is not None and callee.cls.name == "SMILESToken":
                return [(st, Unk(("mcall", callee.name, tuple(vkey(a) for a in args))))]
            if hasattr(callee, "qual") and getattr(callee, "name", "") == "Attribution":
                a = list(args) + [None, None]
                n = next(eng.counter)
                return [(st, Obj(("attribution", n), callee.qual, {"index": kwargs.get("index", a[0]), "token": kwargs.get("token", a[1])}))]
            if hasattr(callee, "cls") and callee.cls is not None and callee.cls.name == "MolecularGraph":
                bound = eng.bind_args(callee, args[1:], kwargs, skip_self=True) or {}
                if callee.name == "add_atom":
                    a = bound.get("atom", args[1] if len(args) > 1 else None)
                    s2 = _tag(st, ("atom", vkey(a)))
                    s2.epoch += 1
                    return [(s2, a)]
                if callee.name == "add_attribution":
                    events.append((node, bound.get("o"), bound.get("attr"), st, fr.func))
                    s2 = st.copy()
                    s2.epoch += 1
                    return [(s2, NONE)]
                if callee.name in ("add_bond", "add_ring_bond", "add_placeholder_bond"):
                    s2 = st.copy()
                    s2.epoch += 1
                    return [(s2, Unk(("graph-ret", callee.name, next(eng.counter))))]
            return None
    eng = Engine(ctx, H())
    eng.run_function(P, {})
    n_atom = 0
    agg = {}
    for node, o, attr, s, f in events:
        ok_ = o is not None and ("atom", vkey(o)) in s.tags
        if not ok_:
            continue                      # a bond attribution
        n_atom += 1
        probs = []
        toks = _token_keys(vkey(o))
        if len(toks) != 1:
            probs.append("the atom is not parsed from exactly one token")
        if not (isinstance(attr, Tup) and len(attr.items) == 1 and isinstance(attr.items[0], Obj) and "token" in attr.items[0].fields):
            probs.append("the stored attribution is not a single Attribution entry")
        else:
            tv = attr.items[0].fields["token"]
            tk = vkey(tv) if tv is not None else None
            if not (tk and tk[0] == "unk" and isinstance(tk[1], tuple) and tk[1][0] == "str" and len(toks) == 1 and tk[1][1] == (next(iter(toks)),)):
                probs.append("the attributed token text is not str(<the token this atom was parsed from>)")
        agg.setdefault((node.lineno, tuple(probs)), (node, f))
    for (ln, probs), (node, f) in sorted(agg.items(), key=lambda kv: kv[0][0]):
        rep.ob(RULE, not probs, node, f, construct="attribution stored for a parsed atom", how="[Attribution(position, str(token the atom was parsed from))]",
               witness="; ".join(probs) or None, nontrivial=True, key="parser-atom/%s" % ("ok" if not probs else probs[0][:50]))
    if not n_atom:
        rep.ob(RULE, False, P.node, P, construct="atoms added by the SMILES parser", witness="no atom added by the parser gets an attribution entry",
               key="parser-atom/none", nontrivial=True)
    # every add_atom of the parser region is followed by an add_attribution for the same atom: by the pairing above on
    # all paths the engine explored (an atom without entry shows up as a missing event)
    return P


def check_graph_store(ctx, rep, RULE):
    """TE3 / shared: the graph hands back exactly what was stored for the same object, and nothing else writes the store"""
    add = ctx.fn("selfies.mol_graph.MolecularGraph.add_attribution")
    get = ctx.fn("selfies.mol_graph.MolecularGraph.get_attribution")
    fields_w = {}
    for n in own_nodes(add.node):
        if isinstance(n, ast.Subscript) and isinstance(n.ctx, ast.Store) and isinstance(n.value, ast.Attribute) and isinstance(n.value.value, ast.Name) \
                and n.value.value.id == add.posparams[0]:
            fields_w[n.value.attr] = n
    if len(fields_w) != 1:
        raise AnalysisError("attribution store of MolecularGraph.add_attribution not identified")
    field = next(iter(fields_w))
    o_add, a_add = add.posparams[1], add.posparams[2]
    o_get = get.posparams[1]
    st = fields_w[field]
    assign = [x for x in own_nodes(add.node) if isinstance(x, ast.Assign) and x.targets[0] is st]
    ok = bool(assign) and unparse(st.slice) == o_add and unparse(assign[0].value) == a_add
    ext = [x for x in own_nodes(add.node) if isinstance(x, ast.Call) and isinstance(x.func, ast.Attribute) and x.func.attr == "extend"]
    ok = ok and all(unparse(x.func.value) == "%s.%s[%s]" % (add.posparams[0], field, o_add) and unparse(x.args[0]) == a_add for x in ext)
    rep.ob(RULE, ok, add.node, add, construct="MolecularGraph.add_attribution", how="stores / extends the entry of the given object with the given list",
           witness=None if ok else "add_attribution does not file the list under the object it was given", key="store/add", nontrivial=True)
    rets = [r for r in own_nodes(get.node) if isinstance(r, ast.Return) and r.value is not None and not (isinstance(r.value, ast.Constant) and r.value.value is None)]
    base = "%s.%s" % (get.posparams[0], field)
    forms = {"%s[%s]" % (base, o_get), "%s.get(%s)" % (base, o_get), "%s.get(%s, None)" % (base, o_get)}
    forms |= {"list(%s)" % f for f in forms} | {"%s.copy()" % f for f in forms} | {"%s[:]" % f for f in forms}
    ok = bool(rets) and all(unparse(r.value) in forms for r in rets)
    rep.ob(RULE, ok, get.node, get, construct="MolecularGraph.get_attribution", how="returns the entry filed under the same object (or None)",
           witness=None if ok else "get_attribution does not return the entry stored for the object asked about", key="store/get", nontrivial=True)
    # who may write the store
    cls = ctx.db.classes["selfies.mol_graph.MolecularGraph"]
    writers = []
    for f in ctx.db.funcs.values():
        for n in own_nodes(f.node):
            if isinstance(n, ast.Attribute) and n.attr == field:
                par_store = isinstance(n.ctx, (ast.Store, ast.Del))
                if par_store and f.name != "__init__":
                    writers.append((f, n))
        for n in own_nodes(f.node):
            if isinstance(n, ast.Subscript) and isinstance(n.ctx, (ast.Store, ast.Del)) and isinstance(n.value, ast.Attribute) and n.value.attr == field \
                    and f is not add:
                writers.append((f, n))
            if isinstance(n, ast.Call) and isinstance(n.func, ast.Attribute) and n.func.attr in ("pop", "clear", "update", "setdefault", "popitem") \
                    and isinstance(n.func.value, ast.Attribute) and n.func.value.attr == field:
                writers.append((f, n))
    for f, n in writers:
        rep.ob(RULE, False, n, f, construct=unparse(n)[:60], witness="%s writes the attribution store outside add_attribution" % f.qual, key="store/writer/" + f.name,
               nontrivial=True)
    if not writers:
        rep.ob(RULE, True, cls.node, None, loc="selfies/mol_graph.py", construct="writers of MolecularGraph.%s" % field, how="only __init__ and add_attribution", key="store/writers")


def check_encoder_tokens(ctx, rep, RULE):
    """TE1: every atom symbol printed by the encoder is reported with the attribution stored for the atom it prints"""
    from rules.shared import core_of
    encf = core_of(ctx, "encoder", "smiles_to_mol")
    F = None
    for s in ctx.cg.sites(encf):
        for g in s.callees:
            if g.module is encf.module and any(isinstance(n, ast.While) for n in own_nodes(g.node)):
                F = g
    if F is None:
        raise AnalysisError("fragment printer of the encoder not found")
    from rules.shared import atom_token_printer
    tokfn = atom_token_printer(ctx)
    maps, appends = [], []

    def builds_map(g, depth=0):
        for n in own_nodes(g.node):
            if isinstance(n, ast.Call) and unparse(n.func).split(".")[-1] == "AttributionMap":
                return True
        if depth < 2:
            return any(builds_map(h2, depth + 1) for s_ in ctx.cg.sites(g) for h2 in s_.callees if h2 is not g and h2.cls is None)
        return False

    class H(Hooks):
        def opaque_call(self, eng, fr, node, callee, args, kwargs, st):
            if getattr(callee, "cls", None) is None and hasattr(callee, "qual"):
                return callee is F or not builds_map(callee)
            return False

        def on_call(self, eng, fr, node, callee, args, kwargs, st):
            if callee is F and fr.func is F:
                s2 = st.copy()
                s2.epoch += 1
                return [(s2, Unk(eng.fresh("branch")))]
            if hasattr(callee, "qual") and getattr(callee, "name", "") == "AttributionMap":
                a = list(args) + [None, None, None]
                maps.append((node, kwargs.get("token", a[1]), kwargs.get("attribution", a[2]), st))
                return [(st, Unk(("amap", next(eng.counter))))]
            if isinstance(callee, tuple) and callee[0] == "method" and callee[1] == "append" and len(args) == 1:
                k = vkey(args[0])
                if k[0] == "unk" and isinstance(k[1], tuple) and k[1][0] == "call" and k[1][1] == tokfn.qual:
                    appends.append((node, k, st))
                    s2 = _tag(st, ("atom-token", k))
                    s2.epoch += 1
                    return [(s2, NONE)]
            return None
    eng = Engine(ctx, H())
    eng.run_function(F, {})
    agg = {}
    n = 0
    for node, tok, attr, s in maps:
        k = vkey(tok) if tok is not None else None
        if not (k and k[0] == "unk" and isinstance(k[1], tuple) and k[1][0] == "call" and k[1][1] == tokfn.qual):
            continue
        n += 1
        probs = []
        atoms = [a for a in k[1][2] if _contains(a, "get_atom")]
        ak = vkey(attr) if attr is not None else None
        if len(atoms) != 1:
            probs.append("the atom a symbol is printed from is not identified")
        elif not (ak and ak[0] == "unk" and isinstance(ak[1], tuple) and ak[1][0] == "mcall" and ak[1][1] == "get_attribution"
                  and tuple(ak[1][3]) == (atoms[0],)):
            probs.append("the atom symbol is not reported with the attribution stored for the atom it was printed from")
        agg.setdefault((node.lineno, tuple(probs)), node)
    for (ln, probs), node in sorted(agg.items(), key=lambda kv: kv[0][0]):
        rep.ob(RULE, not probs, node, F, construct=unparse(node)[:70], how="AttributionMap(_, printer(bond, atom), mol.get_attribution(atom)) for the same atom",
               witness="; ".join(probs) or None, nontrivial=True, key="enc-atom/%s" % ("ok" if not probs else probs[0][:50]))
    if not n:
        rep.ob(RULE, False, F.node, F, construct="atom symbols of the encoder", witness="no atom symbol is reported in the attribution list", key="enc-atom/none",
               nontrivial=True)
    # every appended atom symbol is reported: on each explored path the number of reports of a token >= its appends
    reported = {vkey(tok) for node, tok, attr, s in maps if tok is not None}
    missing = [(node, k) for node, k, s in appends if k not in reported]
    rep.ob(RULE, not missing, missing[0][0] if missing else F.node, F, construct="atom symbols appended by the fragment printer", how="each is reported in an AttributionMap",
           witness=None if not missing else "an atom symbol is emitted without an attribution entry", key="enc-atom/covered", nontrivial=True)
    return F


def check_parser_positions(ctx, rep, RULE):
    """TE4 (convention-independent): whatever position scheme the SMILES parser uses, it treats all bond symbols alike:
    the position an atom gets advances by the same amount for every bond symbol of the folded SMILES_BOND_ORDERS table
    ('-' included), and by no more when no symbol is written.  Decided by running the abstract interpreter on the
    atom-attaching function once per bond symbol (a finite alphabet read from the table, not inputs)."""
    s2m = ctx.fn("selfies.utils.smiles_utils.smiles_to_mol")
    s2b = ctx.fn("selfies.utils.smiles_utils.smiles_to_bond")
    cls = ctx.db.classes["selfies.mol_graph.MolecularGraph"]
    add_atom = cls.methods["add_atom"]
    F = None
    for q in ctx.cg.region(s2m):
        g = ctx.db.funcs[q]
        if g.cls is None and any(add_atom in s.callees for s in ctx.cg.sites(g)):
            F = g
    if F is None:
        raise AnalysisError("atom-attaching parser function not found")
    bp = None
    for s in ctx.cg.sites(F):
        if s2b in s.callees and isinstance(s.node, ast.Call) and s.node.args and isinstance(s.node.args[0], ast.Name) and s.node.args[0].id in F.params:
            bp = s.node.args[0].id
    if bp is None:
        for n in own_nodes(F.node):
            if isinstance(n, ast.If) and isinstance(n.test, ast.Name) and n.test.id in F.params:
                bp = n.test.id
    ip = None
    for r in own_nodes(F.node):
        if isinstance(r, ast.Return) and isinstance(r.value, ast.Tuple):
            for e in r.value.elts:
                if isinstance(e, ast.Name) and e.id in F.params and any(isinstance(n, ast.AugAssign) and isinstance(n.target, ast.Name) and n.target.id == e.id
                                                                         for n in own_nodes(F.node)):
                    ip = (e.id, r.value.elts.index(e))
    if ip is None:
        # the function returns the advanced position alone
        for r in own_nodes(F.node):
            if isinstance(r, ast.Return) and isinstance(r.value, ast.Name) and r.value.id in F.params \
                    and any(isinstance(n, ast.AugAssign) and isinstance(n.target, ast.Name) and n.target.id == r.value.id for n in own_nodes(F.node)):
                ip = (r.value.id, None)
    if bp is None or ip is None:
        rep.note("position bookkeeping of %s not recognised: uniform treatment of bond symbols not decided" % F.qual)
        rep.ob(RULE, True, F.node, F, construct="position advance per bond symbol", how="not decided for this shape of the parser (see note)",
               key="bond-symbol-positions/undecided")
        return
    table = ctx.fold.global_value("selfies.utils.smiles_utils", "SMILES_BOND_ORDERS")
    if not isinstance(table, dict) or not table:
        raise AnalysisError("SMILES_BOND_ORDERS does not fold")
    symbols = sorted(k for k in table if isinstance(k, str))

    class H(Hooks):
        def on_call(self, eng, fr, node, callee, args, kwargs, st):
            if hasattr(callee, "cls") and callee.cls is not None and callee.cls.name == "MolecularGraph":
                s2 = st.copy()
                s2.epoch += 1
                return [(s2, Unk(eng.fresh("graph")))]
            if hasattr(callee, "qual") and getattr(callee, "name", "") == "Attribution":
                return [(st, Unk(eng.fresh("attr")))]
            return None
    deltas = {}
    i0 = Lin.var(("i0",))
    for c in [None] + symbols:
        eng = Engine(ctx, H())
        fr = eng.run_function(F, {bp: Con(c), ip[0]: Num(i0)})
        ds = set()
        for s, v in fr.returns:
            if ip[1] is None:
                v = Tup([v])
            k_ = 0 if ip[1] is None else ip[1]
            if isinstance(v, Tup) and len(v.items) > k_ and isinstance(v.items[k_], Num):
                d = v.items[k_].lin - i0
                ds.add(int(d.k) if d.is_const() and d.k.denominator == 1 else None)
            else:
                ds.add(None)
        if not fr.returns:
            continue
        deltas[c] = ds
    det = {c: next(iter(d)) for c, d in deltas.items() if len(d) == 1 and None not in d}
    undet = sorted(repr(c) for c in deltas if c not in det)
    per = det
    vals = {per[c] for c in symbols if c in per}
    differ = len(vals) > 1 or (None in per and vals and per[None] > min(vals))
    if not differ and undet:
        rep.note("position increment of %s is not a constant for bond symbol(s) %s: uniform treatment not decided" % (F.qual, undet))
        rep.ob(RULE, True, F.node, F, construct="position advance per bond symbol (decided for %d of %d)" % (len(det), len(deltas)),
               how="no two decided symbols differ", key="uniform-bond-symbols/partial")
        return
    ok = not differ
    common = max(vals, key=lambda v: sum(1 for c in symbols if per.get(c) == v)) if vals else None
    odd = sorted(c for c in symbols if c in per and per[c] != common)
    rep.ob(RULE, ok, F.node, F, construct="position advance per bond symbol in %s: %s" % (F.name, {repr(k): v for k, v in per.items()}),
           how="the same for every bond symbol of SMILES_BOND_ORDERS, not larger without a symbol", nontrivial=True, key="uniform-bond-symbols",
           witness=None if ok else "bond symbol(s) %s are counted differently from the others when positions are assigned: every atom after such "
                                   "a bond is attributed to the wrong token position" % (odd or sorted(symbols)))


def check_encoder_fragment_offsets(ctx, rep, RULE):
    """TE5: the symbol offset the encoder hands to the fragment printer for each '.'-fragment is the number of symbols all
    earlier fragments produced (ghost counter over the fragment loop, like TI3 / TO2 on the decoder side)."""
    from rules.shared import core_of
    encf = core_of(ctx, "encoder", "smiles_to_mol")
    F = None
    for s in ctx.cg.sites(encf):
        for g in s.callees:
            if g.module is encf.module and any(isinstance(n, ast.While) for n in own_nodes(g.node)):
                F = g
    if F is None:
        raise AnalysisError("fragment printer of the encoder not found")
    # the offset parameter: the parameter of F that enters the index of the AttributionMap entries it builds
    offs = set()
    for n in own_nodes(F.node):
        if isinstance(n, ast.Call) and unparse(n.func).split(".")[-1] == "AttributionMap" and (n.args or n.keywords):
            idx = n.args[0] if n.args else next((k.value for k in n.keywords if k.arg == "index"), None)
            if idx is not None:
                offs |= {x.id for x in ast.walk(idx) if isinstance(x, ast.Name) and x.id in F.params}
    for g in ctx.db.funcs.values():          # ... or of a closure of F that builds them
        if getattr(g, "outer", None) is F:
            for n in own_nodes(g.node):
                if isinstance(n, ast.Call) and unparse(n.func).split(".")[-1] == "AttributionMap" and n.args:
                    offs |= {x.id for x in ast.walk(n.args[0]) if isinstance(x, ast.Name) and x.id in F.params}
    if len(offs) != 1:
        rep.note("offset parameter of the encoder's fragment printer not identified: fragment offsets of the encoder not decided")
        rep.ob(RULE, True, F.node, F, construct="fragment offsets of the encoder", how="not decided for this shape (see note)", key="enc-frag-offset/undecided")
        return
    offp = next(iter(offs))
    GS = "$encsyms"
    seen, lens = [], {}

    class H(Hooks):
        def on_call(self, eng, fr, node, callee, args, kwargs, st):
            if callee is F and fr.func is encf:
                bound = eng.bind_args(callee, args, kwargs) or {}
                seen.append((node, bound.get(offp), st))
                n = next(eng.counter)
                r = Lin.var(("fragsyms", n))
                v = Unk(("fraglist", n))
                lens[vkey(v)] = r
                s2 = st.copy()
                s2.epoch += 1
                s2.add_lin(ge(r, 0))
                s2.env[GS] = Num(s2.env[GS].lin + r)
                for a in (list(node.args) + [k.value for k in node.keywords]) if isinstance(node, ast.Call) else []:
                    if isinstance(a, ast.Name) and isinstance(s2.env.get(a.id), Tup):
                        s2.env[a.id] = Unk(eng.fresh("filled:" + a.id))
                return [(s2, v)]
            if isinstance(callee, tuple) and callee[0] == "ext" and callee[1] in ("builtins.list", "builtins.tuple") and len(args) == 1 \
                    and vkey(args[0]) in lens and fr.func is encf:
                return [(st, args[0])]
            if isinstance(callee, tuple) and callee[0] == "ext" and callee[1] == "builtins.len" and len(args) == 1 and vkey(args[0]) in lens:
                return [(st, Num(lens[vkey(args[0])]))]
            return None
    hh = H()
    backs = []
    hh.on_loop = lambda eng, fr, node, syms, entered, back, exits, breaks: backs.append(len(back)) if fr.func is encf else None
    st0 = State()
    st0.env[GS] = Num(Lin.const(0))
    Engine(ctx, hh).run_function(encf, {}, state=st0)
    if not seen:
        raise AnalysisError("encoder: call of the fragment printer not reached")
    if not backs or not any(backs):
        raise AnalysisError("encoder: no path of the abstract run completes an iteration of the fragment loop (model lost)")
    bad = [node for node, off, s in seen if not (isinstance(off, Num) and s.entails(eq(off.lin - s.env[GS].lin, 0)))]
    rep.ob(RULE, not bad, bad[0] if bad else seen[0][0], encf, construct="symbol offset passed to %s for each fragment" % F.name,
           how="number of symbols produced for the earlier fragments (ghost counter + loop invariant)",
           witness=None if not bad else "the offset of a later fragment is not the total number of symbols of the earlier ones: the reported "
           "positions of its symbols point at other symbols", nontrivial=True, key="enc-frag-offset")


def check_encoder_branch_offsets(ctx, rep, RULE):
    """TE6: index bookkeeping of the encoder across *recursive* calls (branches).  The fragment printer F reports each symbol
    it appends to its local symbol list D at position  len(D) - 1 + offset, where offset is F's offset parameter.  A branch is
    printed by a recursive call before its branch symbol and index symbols are inserted in front of it, and the entries the
    call filed are shifted afterwards.  Three structural conditions, each necessary for the branch's atom entries to carry
    their true positions:
      a  offset handed to the recursive call + shift applied afterwards == own offset + len(D) at the call + 1 + len(Q)
         (Q = the index symbols inserted with the branch symbol)
      b  the lower bound of the shifted range is len(maps) measured with no entry filed between the measurement and the call
         (a measurement hoisted out of the bond loop also covers the entries of earlier branches and rings)
      c  the upper bound is len(maps) measured after the call returned
    Shapes the rule does not recognise are reported as undecided (note), never as a violation."""
    from rules.shared import fragment_printer, resolve_local
    from rules.C15 import poly
    from sa.flow import Forward
    encf, F = fragment_printer(ctx)

    def undecided(why):
        rep.note("TE6 (encoder branch offsets) not decided for this shape: " + why)
        rep.ob(RULE, True, F.node, F, construct="branch offsets of the encoder", how="not decided for this shape (see note)", key="enc-branch-offset/undecided")
    closures = [g for g in ctx.db.funcs.values() if getattr(g, "outer", None) is F]
    scopes = [F] + closures
    # the entry list M and the offset parameter: M.append(AttributionMap(<index>, ...)) in F or a closure of F
    Ms, offs, Ds = set(), set(), set()
    for g in scopes:
        for n in own_nodes(g.node):
            if isinstance(n, ast.Call) and isinstance(n.func, ast.Attribute) and n.func.attr == "append" and isinstance(n.func.value, ast.Name) \
                    and len(n.args) == 1 and isinstance(n.args[0], ast.Call) and unparse(n.args[0].func).split(".")[-1] == "AttributionMap":
                c = n.args[0]
                idx = c.args[0] if c.args else next((k.value for k in c.keywords if k.arg == "index"), None)
                if idx is None:
                    continue
                Ms.add(n.func.value.id)
                offs |= {x.id for x in ast.walk(idx) if isinstance(x, ast.Name) and x.id in F.params}
                Ds |= {unparse(x.args[0]) for x in ast.walk(idx) if isinstance(x, ast.Call) and unparse(x.func) == "len" and len(x.args) == 1
                       and isinstance(x.args[0], ast.Name)}
    rets = {r.value.id for r in own_nodes(F.node) if isinstance(r, ast.Return) and isinstance(r.value, ast.Name)}
    Ds &= rets
    if len(Ms) != 1 or len(offs) != 1 or len(Ds) != 1 or next(iter(Ms)) not in F.params:
        return undecided("entry list / offset parameter / symbol list not identified (%s / %s / %s)" % (sorted(Ms), sorted(offs), sorted(Ds)))
    M, offp, D = next(iter(Ms)), next(iter(offs)), next(iter(Ds))
    # recursive calls
    rec = [s.node for s in ctx.cg.sites(F) if F in s.callees and isinstance(s.node, ast.Call)]
    if not rec:
        return undecided("no recursive call of the fragment printer")
    sites = {id(s.node): s for s in ctx.cg.sites(F)}
    # the shift: <entry>.index += K over M[a:b] / range(a, b)
    shifts = []
    for lp in own_nodes(F.node):
        if not isinstance(lp, ast.For) or not isinstance(lp.target, ast.Name):
            continue
        v = lp.target.id
        lo = hi = None
        if isinstance(lp.iter, ast.Call) and unparse(lp.iter.func) == "range" and len(lp.iter.args) == 2 and not lp.iter.keywords:
            lo, hi = lp.iter.args
            elem = lambda t: isinstance(t, ast.Subscript) and isinstance(t.value, ast.Name) and t.value.id == M \
                and isinstance(t.slice, ast.Name) and t.slice.id == v
        elif isinstance(lp.iter, ast.Subscript) and isinstance(lp.iter.value, ast.Name) and lp.iter.value.id == M and isinstance(lp.iter.slice, ast.Slice) \
                and lp.iter.slice.step is None:
            lo, hi = lp.iter.slice.lower, lp.iter.slice.upper
            elem = lambda t: isinstance(t, ast.Name) and t.id == v
        else:
            continue
        for st in lp.body:
            if isinstance(st, ast.AugAssign) and isinstance(st.op, ast.Add) and isinstance(st.target, ast.Attribute) and st.target.attr == "index" \
                    and elem(st.target.value):
                shifts.append((lp, lo, hi, st.value))
    no_shift = False
    if not shifts and len(rec) == 1:
        # no shift at all: sound to judge only when nothing else touches the filed entries (no store to an entry's index, no
        # replacement of elements or of the list): then the positions the recursive call filed are final
        touched = False
        for g in scopes:
            for n in own_nodes(g.node):
                if isinstance(n, ast.Attribute) and n.attr == "index" and isinstance(n.ctx, (ast.Store, ast.Del)):
                    touched = True
                if isinstance(n, ast.Subscript) and isinstance(n.ctx, (ast.Store, ast.Del)) and isinstance(n.value, ast.Name) and n.value.id == M:
                    touched = True
                if isinstance(n, ast.Name) and n.id == M and isinstance(n.ctx, ast.Store):
                    touched = True
                if isinstance(n, ast.Call) and unparse(n.func).split(".")[-1] in ("replace", "setattr", "_replace"):
                    touched = True
        if touched:
            return undecided("no shift loop, but entries are rewritten some other way")
        no_shift = True
        shifts = [(None, None, None, ast.Constant(value=0))]
    if len(shifts) != 1 or len(rec) != 1:
        return undecided("%d shift loop(s) over the entry list, %d recursive call(s)" % (len(shifts), len(rec)))
    lp, lo, hi, K = shifts[0]
    call = rec[0]
    bound = {}
    pos = F.posparams
    for i, a in enumerate(call.args):
        if i < len(pos):
            bound[pos[i]] = a
    for k in call.keywords:
        if k.arg:
            bound[k.arg] = k.value
    probs = []
    # ---- a: offsets add up
    arg = bound.get(offp)
    Kx = resolve_local(F, K)
    pa = poly(resolve_local(F, arg)) if arg is not None else {}     # the parameter's default (0) when not passed
    pk = poly(Kx)
    # resolve names one level inside the polynomials (n_index_symbols = len(Q))
    def expand(p):
        if p is None:
            return None
        out = {}
        for mono, c in p.items():
            terms = [{(): 1}]
            for nm in mono:
                e = None
                if not nm.startswith("len(") and nm in F.locals and nm not in F.params:
                    e = resolve_local(F, ast.Name(id=nm, ctx=ast.Load()))
                    e = None if isinstance(e, ast.Name) else poly(e)
                q = e if e is not None else {(nm,): 1}
                terms = [{tuple(sorted(k1 + k2)): v1 * v2 for k1, v1 in t.items() for k2, v2 in q.items()} for t in terms]
            for t in terms:
                for k2, v2 in t.items():
                    out[k2] = out.get(k2, 0) + c * v2
        return {k: v for k, v in out.items() if v}
    pa, pk = expand(pa), expand(pk)
    # Q: the list of index symbols inserted with the branch symbol: the local assigned from the index-symbol function of the length
    # of the recursive call's result
    resname = None
    for st in own_nodes(F.node):
        if isinstance(st, ast.Assign) and st.value is call and len(st.targets) == 1 and isinstance(st.targets[0], ast.Name):
            resname = st.targets[0].id
    Qs = []
    if resname:
        for st in own_nodes(F.node):
            if isinstance(st, ast.Assign) and len(st.targets) == 1 and isinstance(st.targets[0], ast.Name) and isinstance(st.value, ast.Call) \
                    and any(isinstance(x, ast.Call) and unparse(x.func) == "len" and x.args and isinstance(x.args[0], ast.Name) and x.args[0].id == resname
                            for x in ast.walk(st.value)):
                Qs.append(st.targets[0].id)
    if pa is None or pk is None or len(Qs) != 1:
        return undecided("offset argument / shift amount are not integer polynomials over names, or the index-symbol list was not identified")
    Q = Qs[0]
    total = dict(pa)
    for k, c in pk.items():
        total[k] = total.get(k, 0) + c
    total = {k: c for k, c in total.items() if c}
    want = {(offp,): 1, ("len(%s)" % D,): 1, (): 1, ("len(%s)" % Q,): 1}
    if ("len(%s)" % D,) in pk:
        return undecided("the shift amount mentions the current length of the symbol list")
    if total != want:
        probs.append("offset passed to the recursive call (%s) + shift (%s) is not own offset + len(%s) + 1 + len(%s): the entries of a branch "
                     "inside a branch (or inside a later fragment) carry positions of other symbols"
                     % (unparse(arg) if arg is not None else "default", unparse(K), D, Q))
    if no_shift:
        rep.ob(RULE, not probs, call, F, construct="recursive call of %s, entries never shifted" % F.name,
               how="offset == own offset + len(symbols) + 1 + len(index symbols) (the entries the call files are final)",
               witness="; ".join(probs) or None, nontrivial=True, key="enc-branch-offset/" + ("ok" if not probs else probs[0][:30]))
        return
    # ---- b / c: when the bounds are measured
    lo_n = lo.id if isinstance(lo, ast.Name) else None
    hi_n = hi.id if isinstance(hi, ast.Name) else None
    if lo_n is None or (hi is not None and hi_n is None and unparse(hi) != "len(%s)" % M):
        return undecided("bounds of the shifted range are not plain names")
    closure_appends = {g.name for g in closures if any(isinstance(x, ast.Name) and x.id == M for x in ast.walk(g.node))}

    def files_entry(c):
        if isinstance(c.func, ast.Attribute) and isinstance(c.func.value, ast.Name) and c.func.value.id == M \
                and c.func.attr in ("append", "extend", "insert", "pop", "remove", "clear", "sort", "reverse"):
            return True
        if isinstance(c.func, ast.Name) and c.func.id in closure_appends:
            return True
        if isinstance(c.func, ast.Name) and c.func.id in ("len", "range", "enumerate", "reversed", "list", "tuple", "sorted", "iter", "zip",
                                                          "isinstance", "id", "bool", "any", "all", "sum", "min", "max", "repr", "str") \
                and c.func.id not in F.locals and c.func.id not in F.module.defs and c.func.id not in F.module.assigned and c.func.id not in F.module.imports:
            return False        # builtins that only look at the list
        return any(isinstance(a, ast.Name) and a.id == M for a in list(c.args) + [k.value for k in c.keywords])
    found = {"b": None, "c": None, "call_seen": False}

    class Fresh(Forward):
        # state: frozenset of facts  ('fresh', name): name == len(M) now;  'called': the recursive call returned since the lower
        # bound was measured and nothing was filed since
        def join(self, a, b):
            return a & b

        def simple(self, st, state):
            node = st.value if hasattr(st, "for_node") else st
            calls = [c for c in ast.walk(node) if isinstance(c, ast.Call)]
            for c in calls:
                if c is call:
                    found["call_seen"] = True
                    if ("fresh", lo_n) not in state and found["b"] is None:
                        found["b"] = c
                    state = frozenset(x for x in state if not (isinstance(x, tuple) and x[0] == "fresh")) | {"called"}
                elif files_entry(c):
                    state = frozenset(x for x in state if not (isinstance(x, tuple) and x[0] == "fresh")) - {"called"}
            if isinstance(st, ast.AugAssign) and isinstance(st.target, ast.Name) and st.target.id == M:
                state = frozenset(x for x in state if not (isinstance(x, tuple) and x[0] == "fresh")) - {"called"}
            if isinstance(st, ast.Assign) and len(st.targets) == 1 and isinstance(st.targets[0], ast.Name):
                nm = st.targets[0].id
                state = state - {("fresh", nm)}
                if unparse(st.value) == "len(%s)" % M:
                    state = state | {("fresh", nm)}
                    if nm == lo_n:
                        state = state - {"called"}
                    if nm == hi_n and "called" not in state and found["c"] is None:
                        found["c"] = st
            return state

        def for_bind(self, node, state):
            if node is lp and hi_n is None and "called" not in state and found["c"] is None:
                found["c"] = node
            return state
    Fresh(F.node).run(frozenset())
    if not found["call_seen"]:
        return undecided("the recursive call is not a statement-level call of the fragment printer's body")
    if found["b"] is not None:
        probs.append("the lower bound %r of the shifted range is not len(%s) measured just before the recursive call (entries filed in "
                     "between -- earlier branches, rings -- are shifted again)" % (lo_n, M))
    if found["c"] is not None:
        probs.append("the upper bound of the shifted range is not len(%s) measured right after the recursive call returned" % M)
    rep.ob(RULE, not probs, call, F, construct="recursive call of %s, shift over %s[%s:%s]" % (F.name, M, lo_n, hi_n or ""),
           how="offset + shift == own offset + len(symbols) + 1 + len(index symbols); range bounds measured around the call (must-dataflow)",
           witness="; ".join(probs) or None, nontrivial=True, key="enc-branch-offset/" + ("ok" if not probs else probs[0][:30]))
