"""E8: specification tables, written once from the property statements, docs/source/derivation.rst
and CHANGELOG.md v2.0.0 (see DESIGN.md Appendix C).  Nothing here is derived from the code."""
import itertools

# C16 statement: "[C]=0, [Ring1]=1, ... [P]=15"; derivation.rst index table with the v2 renaming
# [BranchL_2] -> [=BranchL], [BranchL_3] -> [#BranchL]
INDEX_SYMBOLS = (
    "[C]", "[Ring1]", "[Ring2]",
    "[Branch1]", "[=Branch1]", "[#Branch1]",
    "[Branch2]", "[=Branch2]", "[#Branch2]",
    "[O]", "[N]", "[=N]", "[=C]", "[#C]", "[S]", "[P]",
)
INDEX_BASE = 16

# derivation.rst (pre-v2 names) for cross-checking the renaming
DOC_INDEX_SYMBOLS_V1 = (
    "[C]", "[Ring1]", "[Ring2]",
    "[Branch1_1]", "[Branch1_2]", "[Branch1_3]",
    "[Branch2_1]", "[Branch2_2]", "[Branch2_3]",
    "[O]", "[N]", "[=N]", "[=C]", "[#C]", "[S]", "[P]",
)

BOND_ORDER = {"": 1, "=": 2, "#": 3}
STEREO_MARK = {"-": None, "/": "/", "\\": "\\"}


def branch_table():
    """symbol -> (type, L)"""
    out = {}
    for L in (1, 2, 3):
        for b, o in BOND_ORDER.items():
            out["[%sBranch%d]" % (b, L)] = (o, L)
    return out


def ring_table():
    """symbol -> (order, L, (mark of earlier atom, mark of the atom at which the symbol appears))"""
    out = {}
    for L in (1, 2, 3):
        for b, o in BOND_ORDER.items():
            out["[%sRing%d]" % (b, L)] = (o, L, (None, None))
        for l, r in itertools.product("-/\\", repeat=2):
            if l == r == "-":
                continue
            out["[%s%sRing%d]" % (l, r, L)] = (1, L, (STEREO_MARK[l], STEREO_MARK[r]))
    return out


def legacy_table():
    """pre-v2 symbol -> modern symbol (CHANGELOG v2.0.0)"""
    out = {}
    for L in (1, 2, 3):
        out["[Branch%d_1]" % L] = "[Branch%d]" % L
        out["[Branch%d_2]" % L] = "[=Branch%d]" % L
        out["[Branch%d_3]" % L] = "[#Branch%d]" % L
        out["[Expl=Ring%d]" % L] = "[=Ring%d]" % L
        out["[Expl#Ring%d]" % L] = "[#Ring%d]" % L
        out["[Expl/Ring%d]" % L] = "[//Ring%d]" % L
        out["[Expl\\Ring%d]" % L] = "[\\\\Ring%d]" % L
    return out


NOP = "[nop]"
DOT = "."
EPSILON = "[epsilon]"

# C07 statement: "all sixteen index symbols, every branch symbol, the single and double ring symbols"
def robust_fixed_part():
    out = set(INDEX_SYMBOLS)
    out |= set(branch_table())
    for L in (1, 2, 3):
        out.add("[Ring%d]" % L)
        out.add("[=Ring%d]" % L)
    return out
