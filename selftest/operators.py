"""Checker self-validation (thorough tier, DESIGN.md §6).

Each operator is an edit of a scratch copy of /repo/selfies (made with tempfile.mkdtemp, removed immediately).
  expect == 'fire'   : the variant still compiles and the property's check must report a violation of one of `rules`
  expect == 'silent' : a behaviour-preserving twin; the check must stay silent (exit 0)
An operator whose anchor text is absent (because the tree was edited) is counted as inapplicable, not as a failure.
A seeded break that is not caught on a tree whose own check passes is an ANALYSIS-ERROR (the checker lost sensitivity).
"""
import os
import shutil
import subprocess
import tempfile
import time
from concurrent.futures import ThreadPoolExecutor

from sa import AnalysisError, REPO

D = "selfies/decoder.py"
E = "selfies/encoder.py"
G = "selfies/grammar_rules.py"
B = "selfies/bond_constraints.py"
M = "selfies/mol_graph.py"
S = "selfies/utils/smiles_utils.py"
U = "selfies/utils/encoding_utils.py"
C = "selfies/compatibility.py"
K = "selfies/constants.py"
K_MATCH = "selfies/utils/matching_utils.py"
SU_ = "selfies/utils/selfies_utils.py"


def op(name, expect, edits, rules=()):
    return dict(name=name, expect=expect, edits=edits, rules=tuple(rules))


# ---- benign twins applied to every property whose anchors they touch
BENIGN = [
    op("rename-local-decoder", "silent", [(D, "    rings_made = [0] * len(mol)", "    made = [0] * len(mol)"),
                                           (D, "a_pos=rings_made[lidx]", "a_pos=made[lidx]"), (D, "b_pos=rings_made[ridx]", "b_pos=made[ridx]"),
                                           (D, "            rings_made[lidx] += 1\n            rings_made[ridx] += 1", "            made[lidx] += 1\n            made[ridx] += 1")]),
    op("docstring-and-message", "silent", [(D, 'err_msg = "invalid symbol \'{}\'\\n\\tSELFIES: {}".format(', 'err_msg = "unknown symbol \'{}\'\\n\\tSELFIES: {}".format(')]),
    op("le0-as-lt1", "silent", [(D, "        if lfree <= 0 or rfree <= 0:", "        if lfree < 1 or rfree < 1:")]),
    op("min-operand-order", "silent", [(G, "    bond_order = min(bond_order, state, bond_cap)", "    bond_order = min(state, bond_cap, bond_order)")]),
    op("reorder-independent-statements", "silent", [(M, "        self._bond_counts[a] += order\n        self._bond_counts[b] += order\n        self._ring_bond_flags[a] = True\n        self._ring_bond_flags[b] = True",
                                                       "        self._ring_bond_flags[a] = True\n        self._ring_bond_flags[b] = True\n        self._bond_counts[b] += order\n        self._bond_counts[a] += order")]),
    op("added-comment-and-blank-lines", "silent", [(B, "    # clear cache since we changed alphabet\n", "    # the memoised alphabet and capacities depend on the table\n\n")]),
    op("dict-copy-method", "silent", [(B, "    return dict(_current_constraints)", "    return _current_constraints.copy()")]),
    op("type-hints", "silent", [(G, "def process_branch_symbol(symbol: str) -> Optional[Tuple[int, int]]:", "def process_branch_symbol(symbol):")]),
]

OPS = {
    "C01": [
        op("dearomatise-by-sweeping-the-bond-table", "fire", [(M, "        for node in ds:\n            for adj in ds[node]:\n                self.update_bond_order(node, adj, new_order=1)\n", "        for bond in self._bond_dict.values():\n            if bond.order == 1.5:\n                bond.order = 1\n                self._bond_counts[bond.src] -= 0.5\n                self._bond_counts[bond.dst] -= 0.5\n        for node in ds:\n")], ["V6"]),
        op("kekulize-recounts-from-adjacency", "fire", [(M, "            self._bond_counts[node] = int(self._bond_counts[node])", "            self._bond_counts[node] = sum(b.order for b in self._adj_list[node])")], ["V6"]),
        op("start-state-1", "fire", [(D, "            init_state=0,\n            root_atom=None,", "            init_state=1,\n            root_atom=None,")], ["V0"]),
        op("root-atom-extra-budget", "fire", [(G, "    bonds_left = bond_cap - bond_order\n    next_state = None if (bonds_left == 0) else bonds_left\n    return bond_order, next_state\n\n\ndef next_branch_state",
                                              "    bonds_left = bond_cap - bond_order + (state == 0)\n    next_state = None if (bonds_left == 0) else bonds_left\n    return bond_order, next_state\n\n\ndef next_branch_state")], ["V2", "V1"]),
        op("branch-keeps-full-state", "fire", [(G, "    next_state = state - branch_init_state", "    next_state = state")], ["V3"]),
        op("setter-keeps-callers-dict", "fire", [(B, "        _current_constraints = dict(bond_constraints)", "        _current_constraints = bond_constraints")], ["V8"]),
        op("drop-rfree-clamp", "fire", [(D, "        order = min(order, lfree, rfree)", "        order = min(order, lfree)")], ["V5"]),
        op("le0-to-lt0", "fire", [(D, "        if lfree <= 0 or rfree <= 0:", "        if lfree < 0 or rfree < 0:")], ["V5"]),
        op("remove-self-ring-guard", "fire", [(D, "        if lidx == ridx:  # ring to the same atom forbidden\n            continue\n", "")], ["V5"]),
        op("no-clamp-3", "fire", [(D, "            new_order = min(order + bond.order, 3)", "            new_order = order + bond.order")], ["V5"]),
        op("one-sided-count", "fire", [(M, "        self._bond_counts[a] += order\n        self._bond_counts[b] += order\n        self._ring_bond_flags", "        self._bond_counts[a] += order\n        self._ring_bond_flags")], ["V6"]),
        op("forget-h-count", "fire", [(M, "        bond_cap -= 0 if (self.h_count is None) else self.h_count\n", "")], ["V7"]),
        op("gt10", "fire", [(S, "                if rnum >= 10:", "                if rnum > 10:")], ["W2"]),
        op("push-true", "fire", [(S, "len(mol.get_out_dirbonds(bond.dst)), bond_index < total_bonds - 1))", "len(mol.get_out_dirbonds(bond.dst)), True))")], ["W1"]),
        op("accept-negative-capacity", "fire", [(G, "    if atom.bonding_capacity < 0:\n        return None  # too many Hs (e.g. [CH9]\n", "")], ["V7"]),
        op("atom-min-drops-state", "fire", [(G, "    bond_order = min(bond_order, state, bond_cap)", "    bond_order = min(bond_order, bond_cap)")], ["V1"]),
        op("ring-log-per-fragment", "fire", [(S, "    ring_log = dict()\n    for root in mol.get_roots():\n        derived = []", "    for root in mol.get_roots():\n        ring_log = dict()\n        derived = []")], ["W3"]),
        op("falsy-capacity-fallback", "fire", [(B, "    if key in _current_constraints:\n        return _current_constraints[key]\n    else:\n        return _current_constraints[\"?\"]",
                                               "    return _current_constraints.get(key) or _current_constraints[\"?\"]")], ["V7"]),
    ],
    "C02": [
        op("slot-counter-advances-on-bond-upgrade", "fire", [(D, "            rings_made[lidx] += 1\n            rings_made[ridx] += 1", "        rings_made[lidx] += 1\n        rings_made[ridx] += 1")], ["T9"]),
        op("derivation-under-reports-consumed", "fire", [(D, "            break\n\n    return n_derived\n", "            break\n\n    return min(n_derived, max_derive)\n")], ["T11"]),
        op("start-state-1", "fire", [(D, "            init_state=0,\n            root_atom=None,", "            init_state=1,\n            root_atom=None,")], ["T0"]),
        op("ring-dispatch-misaligned", "fire", [(D, '        elif "ng" == symbol[-4:-2]:', '        elif "ng" == symbol[-5:-3]:')], ["T7"]),
        op("atom-budget-not-spent", "fire", [(G, "    bonds_left = bond_cap - bond_order\n    next_state = None if (bonds_left == 0) else bonds_left\n    return bond_order, next_state\n\n\ndef next_branch_state",
                                             "    bonds_left = bond_cap\n    next_state = None if (bonds_left == 0) else bonds_left\n    return bond_order, next_state\n\n\ndef next_branch_state")], ["T1"]),
        op("ring-symbol-not-validated-in-state-0", "fire", [(D, '            output = process_ring_symbol(symbol)\n            if output is None:\n                _raise_decoder_error(selfies, symbol)\n            ring_type, n, stereo = output\n\n            if state == 0:\n                next_state = state\n            else:\n                ring_order, next_state = next_ring_state(ring_type, state)', '            if state == 0:\n                next_state = state\n            else:\n                output = process_ring_symbol(symbol)\n                if output is None:\n                    _raise_decoder_error(selfies, symbol)\n                ring_type, n, stereo = output\n                ring_order, next_state = next_ring_state(ring_type, state)')], ["T8"]),
        op("ring-no-decrement", "fire", [(G, "    bonds_left = state - bond_order\n    next_state = None if (bonds_left == 0) else bonds_left\n    return bond_order, next_state\n\n\ndef get_index",
                                          "    bonds_left = state\n    next_state = None if (bonds_left == 0) else bonds_left\n    return bond_order, next_state\n\n\ndef get_index")], ["T3"]),
        op("branch-state-lt1", "fire", [(D, "            if state <= 1:", "            if state < 1:")], ["T4", "T2"]),
        op("drop-max0", "fire", [(D, "lidx = max(0, prev_atom.index - (Q + 1))", "lidx = abs(prev_atom.index - (Q + 1))")], ["T3"]),
        op("budget-Q", "fire", [(D, "symbol_iter, mol, selfies, (Q + 1),", "symbol_iter, mol, selfies, Q,")], ["T2"]),
        op("swallow-none", "fire", [(D, "            if output is None:\n                _raise_decoder_error(selfies, symbol)\n            ring_type, n, stereo = output",
                                     "            if output is None:\n                continue\n            ring_type, n, stereo = output")], ["T8"]),
        op("ring-table-range", "fire", [(G, "def _build_ring_cache():\n    cache = dict()\n    for L in range(1, 4):", "def _build_ring_cache():\n    cache = dict()\n    for L in range(1, 3):")], ["T5"]),
        op("permute-index-symbols", "fire", [(K, '"[O]", "[N]", "[=N]"', '"[N]", "[O]", "[=N]"')], ["T10"]),
        op("rings-per-fragment", "fire", [(D, "    rings = []\n    attribution_index = 0\n    for s in selfies.split(\".\"):", "    attribution_index = 0\n    for s in selfies.split(\".\"):\n        rings = []")], ["T9"]),
        op("index-reader-break", "fire", [(D, "            index_symbols.append(None)", "            break")], ["T10"]),
        op("negative-verdict-cache", "fire", [(G, "    if atom.bonding_capacity < 0:\n        return None  # too many Hs (e.g. [CH9]",
                                               "    if atom.bonding_capacity < 0:\n        _PROCESS_ATOM_CACHE[symbol] = (bond_info, None)\n        return None")], ["T8"]),
    ],
    "C03": [
        op("isotope-0-not-printed", "fire", [(S, "        if atom.isotope is not None:\n            builder.append(str(atom.isotope))", "        if atom.isotope:\n            builder.append(str(atom.isotope))")], ["R12"]),
        op("kekulize-skipped-without-aromatic-atoms", "fire", [(E, "    if not mol.kekulize():", "    if any(a.is_aromatic for a in mol.get_atoms()) and not mol.kekulize():")], ["R13"]),
        op("H0-read-as-one-hydrogen", "fire", [(S, "        h_count = 1 if (s == \"\") else int(s)", "        h_count = int(s or 1) or 1")], ["R11"]),
        op("roots-as-set", "fire", [(M, "        self._roots = list()", "        self._roots = set()"), (M, "            self._roots.append(atom.index)", "            self._roots.add(atom.index)")], ["R10"]),
        op("ring-arity-capped", "fire", [(E, "                    _ring_bonds_to_selfies(rev_bond, bond),\n                    len(Q_as_symbols)\n", "                    _ring_bonds_to_selfies(rev_bond, bond),\n                    min(len(Q_as_symbols), 2)\n")], ["R4"]),
        op("encoder-own-atom-printer", "fire", [(E, '    return "[{}{}]".format(bond_char, atom_to_smiles(atom, brackets=False))',
                                                  '    body = atom.element + ("" if atom.charge == 0 else "{:+}".format(atom.charge))\n    return "[{}{}]".format(bond_char, body)')], ["R5"]),
        op("explicit-aromatic-bond-read-as-single", "fire", [(S, "    order = SMILES_BOND_ORDERS.get(bond_char, 1)", "    order = int(SMILES_BOND_ORDERS.get(bond_char, 1))")], ["R3"]),
        op("decoder-drops-isotope-zero", "fire", [(G, '    isotope = None if (isotope == "") else int(isotope)\n    if element not in ELEMENTS:\n        return None\n    chirality = None', '    isotope = None if (isotope == "") else int(isotope)\n    isotope = isotope or None\n    if element not in ELEMENTS:\n        return None\n    chirality = None')], ["R9"]),
        op("strict-check-ignores-explicit-hydrogens", "fire", [(E, '        bond_cap = atom.bonding_capacity\n', '        bond_cap = get_bonding_capacity(atom.element, atom.charge)\n'), (E, 'from selfies.exceptions import EncoderError, SMILESParserError\n', 'from selfies.bond_constraints import get_bonding_capacity\nfrom selfies.exceptions import EncoderError, SMILESParserError\n')], ["R8"]),
        op("ring-len", "fire", [(E, "get_selfies_from_index(ring_len - 1)", "get_selfies_from_index(ring_len)")], ["R1"]),
        op("branch-len", "fire", [(E, "get_selfies_from_index(len(branch) - 1)", "get_selfies_from_index(len(branch))")], ["R2"]),
        op("double-is-3", "fire", [(S, '":": 1.5, "=": 2, "#": 3}', '":": 1.5, "=": 3, "#": 3}')], ["R3"]),
        op("radix-10", "fire", [(G, "        index //= base", "        index //= 10")], ["R1"]),
        op("chain-bond-symbol-ignored-between-aromatics", "fire", [(S, "        if prev_atom.is_aromatic and atom.is_aromatic and (bond_char is None):", "        if prev_atom.is_aromatic and atom.is_aromatic and (bond_char != \"=\"):")], ["R6"]),
        op("ring-opening-symbol-ignored", "fire", [(S, "    if latom.is_aromatic and ratom.is_aromatic and (bonds == (None, None)):", "    if latom.is_aromatic and ratom.is_aromatic and (rbond_char is None):")], ["R6"]),
        op("ring-implicit-test-spelled-with-is-none", "silent", [(S, "    if latom.is_aromatic and ratom.is_aromatic and (bonds == (None, None)):", "    if latom.is_aromatic and ratom.is_aromatic and lbond_char is None and rbond_char is None:")]),
        op("memo-reading-table-not-cleared", "fire", [(B, "    get_bonding_capacity.cache_clear()\n", "")], ["R7"]),
    ],
    "C04": [
        op("early-exit-for-two-bonds", "fire", [(E, "    out_bonds = mol.get_out_dirbonds(atom.index)\n\n    # 1. rings", "    out_bonds = mol.get_out_dirbonds(atom.index)\n    if len(out_bonds) < 3:\n        return False\n\n    # 1. rings")], ["S4"]),
        op("early-exit-for-one-bond", "silent", [(E, "    out_bonds = mol.get_out_dirbonds(atom.index)\n\n    # 1. rings", "    out_bonds = mol.get_out_dirbonds(atom.index)\n    if len(out_bonds) < 2:\n        return False\n\n    # 1. rings")]),
        op("marks-on-double-ring-bond", "fire", [(E, "    if (lbond.order != 1) or all(b.stereo is None for b in (lbond, rbond)):", "    if (lbond.order == 3) or all(b.stereo is None for b in (lbond, rbond)):")], ["S2", "S1"]),
        op("ring-bond-directions-differ-in-order", "fire", [(M, "        b_bond = DirectedBond(b, a, order, b_stereo, True)", "        b_bond = DirectedBond(b, a, 1, b_stereo, True)")], ["S3"]),
        op("ring-bond-ctor-by-keyword", "silent", [(M, "        b_bond = DirectedBond(b, a, order, b_stereo, True)", "        b_bond = DirectedBond(src=b, dst=a, order=order, stereo=b_stereo, ring_bond=True)")]),
        op("memoised-parse-flipped-in-place", "fire", [(S, "def smiles_to_mol(smiles: str, attributable: bool) -> MolecularGraph:", "@functools.lru_cache(maxsize=1024)\ndef smiles_to_mol(smiles: str, attributable: bool) -> MolecularGraph:"), (S, "import enum\n", "import enum\nimport functools\n")], ["S7"]),
        op("parity-through-a-local", "silent", [(E, "    return count % 2 != 0  # if odd permutation, should invert chirality", "    odd = (count % 2 == 1)\n    return odd")]),
        op("ring-flag-through-helper", "silent", [(M, "        self._ring_bond_flags[a] = True\n        self._ring_bond_flags[b] = True\n", "        self._mark_ring_atom(a)\n        self._mark_ring_atom(b)\n"),
                                                  (M, "    def update_bond_order(", "    def _mark_ring_atom(self, idx):\n        self._ring_bond_flags[idx] = True\n\n    def update_bond_order(")]),
        op("swap-table-pair", "fire", [(G, "            cache[symbol] = (order, L, (lstereo, rstereo))", "            cache[symbol] = (order, L, (rstereo, lstereo))")], ["S2"]),
        op("swap-encoder-call", "fire", [(E, "                    _ring_bonds_to_selfies(rev_bond, bond),", "                    _ring_bonds_to_selfies(bond, rev_bond),")], ["S2"]),
        op("swap-decoder-marks", "fire", [(D, "                a=lidx, a_stereo=lstereo, a_pos=rings_made[lidx],\n                b=ridx, b_stereo=rstereo, b_pos=rings_made[ridx],",
                                           "                a=lidx, a_stereo=rstereo, a_pos=rings_made[lidx],\n                b=ridx, b_stereo=lstereo, b_pos=rings_made[ridx],")], ["S2"]),
        op("same-mark-dropped", "fire", [(E, "    if (lbond.order != 1) or all(b.stereo is None for b in (lbond, rbond)):", "    if (lbond.order != 1) or lbond.stereo == rbond.stereo:")], ["S1", "S2"]),
        op("adjacent-descents-instead-of-inversions", "fire", [(E, "        for j in range(i + 1, len(perm)):\n            if perm[i] > perm[j]:\n                count += 1", "        for j in range(i + 1, min(i + 2, len(perm))):\n            if perm[i] > perm[j]:\n                count += 1")], ["S4"]),
        op("parity-of-even", "fire", [(E, "    return count % 2 != 0  # if odd permutation, should invert chirality", "    return count % 2 == 0")], ["S4"]),
        op("inversions-counted-with-ge", "silent", [(E, "            if perm[i] > perm[j]:\n                count += 1", "            if not perm[i] <= perm[j]:\n                count += 1")]),
        op("inversions-by-combinations", "silent", [(E, "    count = 0\n    for i in range(len(perm)):\n        for j in range(i + 1, len(perm)):\n            if perm[i] > perm[j]:\n                count += 1\n", "    count = sum(1 for i in range(len(perm)) for j in range(i + 1, len(perm)) if perm[i] > perm[j])\n")]),
        op("ring-flag-for-one-end-only", "fire", [(M, "        self._ring_bond_flags[a] = True\n        self._ring_bond_flags[b] = True\n", "        self._ring_bond_flags[a] = True\n")], ["S5"]),
        op("ring-flag-from-first-out-bond", "fire", [(M, "        return self._ring_bond_flags[src]", "        out = self._adj_list[src]\n        return bool(out) and out[0].ring_bond")], ["S5"]),
        op("ring-flag-computed-over-all-out-bonds", "silent", [(M, "        return self._ring_bond_flags[src]", "        return any(b.ring_bond for b in self._adj_list[src])")]),
        op("closing-digit-mark-dropped-when-equal", "fire", [(S, "    lorder, lstereo = smiles_to_bond(lbond_char)\n    rorder, rstereo = smiles_to_bond(rbond_char)", "    lorder, lstereo = smiles_to_bond(lbond_char)\n    rorder, rstereo = smiles_to_bond(None if rbond_char == lbond_char else rbond_char)")], ["S6"]),
        op("closure-marks-swapped-ends", "fire", [(S, "        a=latom.index, a_stereo=lstereo, a_pos=lpos,\n        b=ratom.index, b_stereo=rstereo,", "        a=latom.index, a_stereo=lstereo, a_pos=lpos,\n        b=ratom.index, b_stereo=lstereo,")], ["S6"]),
    ],
    "C05": [
        op("aromatic-p-restricted-to-valence-3", "fire", [(K, "\"N\": (3, 5), \"P\": (3, 5), \"As\": (3, 5),", "\"N\": (3, 5), \"P\": (3,), \"As\": (3,),")], ["K6"]),
        op("is-kekulized-reads-atom-flags", "fire", [(M, "        return not self._delocal_subgraph", "        return not any(atom.is_aromatic for atom in self._atoms)")], ["K4"]),
        op("only-lowest-valence-satisfies", "fire", [(M, "            if any(used_electrons == v - atom.charge for v in valences):", "            if used_electrons == valences[0] - atom.charge:"),
                                                        (M, "                return not ((free_electrons >= 0) and (free_electrons % 2 != 0))", "                return free_electrons % 2 == 0")], ["K6"]),
        op("double-bonds-written-inside-the-reset-loop", "fire", [(M, "            self._bond_counts[node] = int(self._bond_counts[node])\n\n        for matched_labels in enumerate(matching):\n            matched_nodes = tuple(label_to_node[i] for i in matched_labels)\n            self.update_bond_order(*matched_nodes, new_order=2)\n",
                                                                       "            self._bond_counts[node] = int(self._bond_counts[node])\n            if node in node_to_label and matching[node_to_label[node]] < node_to_label[node]:\n                self.update_bond_order(label_to_node[matching[node_to_label[node]]], node, new_order=2)\n")], ["K9"]),
        op("half-bond-lost-in-electron-count", "fire", [(M, "                               + int(self._bond_counts[node]) \n                               + int(2 * (self._bond_counts[node] % 1)))", "                               + round(self._bond_counts[node]))")], ["K6"]),
        op("vertices-from-kept-bonds", "fire", [(M, "        label_to_node = list(sorted(kept_nodes))", "        label_to_node = sorted({n for n in kept_nodes for a in ds[n] if a in kept_nodes})"),
                                                 (M, "        pruned_ds = [list() for _ in range(len(kept_nodes))]\n        for node in kept_nodes:", "        pruned_ds = [list() for _ in range(len(label_to_node))]\n        for node in label_to_node:")], ["K8"]),
        op("prune-rule-free-electrons-not-one", "fire", [(M, "                return not ((free_electrons >= 0) and (free_electrons % 2 != 0))", "                return free_electrons != 1")], ["K6"]),
        op("prune-ignores-explicit-hydrogens", "fire", [(M, "            used_electrons += atom.h_count\n", "            used_electrons += 0\n")], ["K6"]),
        op("prune-uses-first-valence", "fire", [(M, "            valence = valences[-1] - atom.charge", "            valence = valences[0] - atom.charge")], ["K6"]),
        op("prune-membership-spelled-in", "silent", [(M, "            return any(used_electrons == v for v in valences)", "            return used_electrons in valences")]),
        op("missing-matching-not-checked", "fire", [(M, "        if matching is None:\n            return False\n", "")], ["K1"]),
        op("success-without-matching", "fire", [(M, "        if matching is None:\n            return False\n", "        if matching is None:\n            return True\n")], ["K1"]),
        op("encoder-ignores-kekulize-result", "fire", [(E, "    if not mol.kekulize():\n        err_msg = \"kekulization failed\\n\\tSMILES: {}\".format(smiles)\n        raise EncoderError(err_msg)\n", "    mol.kekulize()\n")], ["K1"]),
        op("failed-kekulization-raises-valueerror", "fire", [(E, "        err_msg = \"kekulization failed\\n\\tSMILES: {}\".format(smiles)\n        raise EncoderError(err_msg)", "        err_msg = \"kekulization failed\\n\\tSMILES: {}\".format(smiles)\n        raise ValueError(err_msg)")], ["K1"]),
        op("writer-guard-removed", "fire", [(S, "    assert mol.is_kekulized()\n", "")], ["K1"]),
        op("kekulize-resets-hydrogens", "fire", [(M, "            self._atoms[node].is_aromatic = False\n", "            self._atoms[node].is_aromatic = False\n            self._atoms[node].h_count = None\n")], ["K2"]),
        op("kekulize-drops-a-bond-entry", "fire", [(M, "        self._delocal_subgraph = dict()  # clear DS\n", "        self._delocal_subgraph = dict()  # clear DS\n        self._bond_dict.pop((0, 1), None)\n")], ["K2"]),
        op("one-sided-flip", "fire", [(K_MATCH, "        matching[a] = b\n        matching[b] = a", "        matching[a] = b")], ["K3"]),
        op("greedy-one-sided", "fire", [(K_MATCH, "        matching[node] = mate\n        matching[mate] = node", "        matching[node] = mate")], ["K3"]),
        op("subgraph-not-emptied", "fire", [(M, "        self._delocal_subgraph = dict()  # clear DS\n", "")], ["K4"]),
        op("flip-with-tuple-assignment", "silent", [(K_MATCH, "        matching[a] = b\n        matching[b] = a", "        matching[a], matching[b] = b, a")]),
        op("subgraph-cleared-in-place", "silent", [(M, "        self._delocal_subgraph = dict()  # clear DS\n", "        self._delocal_subgraph.clear()\n")]),
        op("failure-tested-with-if-else", "silent", [(E, "    if not mol.kekulize():\n        err_msg = \"kekulization failed\\n\\tSMILES: {}\".format(smiles)\n        raise EncoderError(err_msg)\n", "    if mol.kekulize():\n        pass\n    else:\n        err_msg = \"kekulization failed\\n\\tSMILES: {}\".format(smiles)\n        raise EncoderError(err_msg)\n")]),
    ],
    "C06": [
        op("dearomatise-by-sweeping-the-bond-table", "fire", [(M, "        for node in ds:\n            for adj in ds[node]:\n                self.update_bond_order(node, adj, new_order=1)\n", "        for bond in self._bond_dict.values():\n            if bond.order == 1.5:\n                bond.order = 1\n                self._bond_counts[bond.src] -= 0.5\n                self._bond_counts[bond.dst] -= 0.5\n        for node in ds:\n")], ["Q1"]),
        op("kekulize-recounts-from-adjacency", "fire", [(M, "            self._bond_counts[node] = int(self._bond_counts[node])", "            self._bond_counts[node] = sum(b.order for b in self._adj_list[node])")], ["Q1"]),
        op("setter-keeps-callers-dict", "fire", [(B, "        _current_constraints = dict(bond_constraints)", "        _current_constraints = bond_constraints")], ["Q4"]),
        op("ge-comparator", "fire", [(E, "        if bond_count > bond_cap:", "        if bond_count >= bond_cap:")], ["Q1"]),
        op("format-no-sign", "fire", [(B, '        key += "{:+}".format(charge)', '        key += "{}".format(charge)')], ["Q2"]),
        op("drop-memo-clear", "fire", [(B, "    get_bonding_capacity.cache_clear()", "    pass")], ["Q4"]),
        op("unguard-strict", "fire", [(E, "    if strict:\n        _check_bond_constraints(mol, smiles)", "    _check_bond_constraints(mol, smiles) if strict else [a.bonding_capacity for a in mol.get_atoms()]")], ["Q3"]),
        op("dedupe-key", "fire", [(E, "    for atom in mol.get_atoms():\n        bond_cap = atom.bonding_capacity",
                                   "    seen = set()\n    for atom in mol.get_atoms():\n        if atom.element in seen:\n            continue\n        seen.add(atom.element)\n        bond_cap = atom.bonding_capacity")], ["Q1"]),
        op("break-after-first-error", "silent", [(E, "            errors.append((atom_to_smiles(atom), bond_count, bond_cap))", "            errors.append((atom_to_smiles(atom), bond_count, bond_cap))\n            break")]),
    ],
    "C07": [
        op("table-loop-stops-at-wildcard", "fire", [(B, "        if (m > c) or (a == \"?\"):\n            continue", "        if a == \"?\":\n            break\n        if m > c:\n            continue")], ["A3"]),
        op("ring-formation-ignores-right-capacity", "fire", [(D, "        order = min(order, lfree, rfree)", "        order = min(order, lfree)")], ["A6"]),
        op("setter-keeps-callers-dict", "fire", [(B, "        _current_constraints = dict(bond_constraints)", "        _current_constraints = bond_constraints")], ["A4"]),
        op("isnumeric-keys", "fire", [(B, '''                valid = ((key[:j] in ELEMENTS) and c.isascii() and c.isdigit()
                         and (c[0] != "0"))''', "                valid = (key[:j] in ELEMENTS) and c.isnumeric()")], ["A1"]),
        op("filter-ge", "fire", [(B, '        if (m > c) or (a == "?"):', '        if (m >= c) or (a == "?"):')], ["A3"]),
        op("drop-branch-symbol", "fire", [(B, '        alphabet_subset.add("[#Branch{}]".format(i))\n', "")], ["A2"]),
        op("drop-index-symbols", "fire", [(B, "    alphabet_subset.update(INDEX_ALPHABET)\n", "")], ["A2"]),
        op("drop-alphabet-clear", "fire", [(B, "    get_semantic_robust_alphabet.cache_clear()", "    pass")], ["A4"]),
    ],
    "C08": [
        op("attribution-of-unbound-atom", "fire", [(D, "                if state == 0:\n                    o = mol.add_atom(atom, True)\n                    mol.add_attribution(\n                        o,  attribute_stack +\n                        [Attribution(index + attribution_index, symbol)]\n                        if attribute_stack is not None else None)",
                                                         "                if state == 0:\n                    o = mol.add_atom(atom, True)\n                mol.add_attribution(\n                    o,  attribute_stack +\n                    [Attribution(index + attribution_index, symbol)]\n                    if attribute_stack is not None else None)")], ["X-unbound"]),
        op("ring-guard-lt0", "fire", [(D, "            if state == 0:\n                next_state = state\n            else:\n                ring_order, next_state", "            if state < 0:\n                next_state = state\n            else:\n                ring_order, next_state")], ["X-assert"]),
        op("index-reader-wrong-except", "fire", [(D, "        except StopIteration:\n            index_symbols.append(None)", "        except KeyError:\n            index_symbols.append(None)")], ["X-next"]),
        op("no-valueerror-conversion", "fire", [(D, "    except ValueError as err:\n        raise DecoderError(str(err)) from None", "    except KeyError as err:\n        raise DecoderError(str(err)) from None")], ["X-explicit"]),
        op("untry-table-lookup", "fire", [(G, "    try:\n        return _PROCESS_BRANCH_CACHE[symbol]\n    except KeyError:\n        return None", "    return _PROCESS_BRANCH_CACHE[symbol]")], ["X-subscript"]),
        op("valueerror-for-bad-symbol", "fire", [(D, "    raise DecoderError(err_msg)", "    raise ValueError(err_msg)")], ["X-explicit"]),
        op("call-setter", "fire", [(D, "    mol = MolecularGraph(attributable=attribute)", "    from selfies.bond_constraints import set_semantic_constraints\n    set_semantic_constraints()\n    mol = MolecularGraph(attributable=attribute)")], ["NW", "X-explicit"]),
        op("remove-hanging-bracket-raise", "fire", [("selfies/utils/selfies_utils.py", "        if right_idx == -1:\n            raise ValueError(\"malformed SELFIES string, hanging '[' bracket\")\n", "")], ["TERM"]),
        op("cache-none", "fire", [(G, "        output = _process_atom_selfies_no_cache(symbol)\n        if output is None:\n            return None\n        _PROCESS_ATOM_CACHE[symbol] = output",
                                   "        _PROCESS_ATOM_CACHE[symbol] = output = _process_atom_selfies_no_cache(symbol)\n        if output is None:\n            return None")], ["EST"]),
        op("setdefault-table", "fire", [(B, "    if key in _current_constraints:\n        return _current_constraints[key]\n    else:\n        return _current_constraints[\"?\"]",
                                         "    return _current_constraints.setdefault(key, _current_constraints[\"?\"])")], ["NW"]),
    ],
    "C09": [
        op("unmatched-root-falls-into-the-matched-arm", "fire", [(K_MATCH, "            if matching[adj] is None:  # unmatched node\n                if adj != root:  # augmenting path found!\n                    parents[adj] = [node, adj]\n                    other_end = adj\n                    break\n",
                                                                       "            if (matching[adj] is None) and (adj != root):\n                parents[adj] = [node, adj]\n                other_end = adj\n                break\n")], ["X-none-index"]),
        op("sorted-attribution-maps", "fire", [(E, "    attribution_maps = [a for a in attribution_maps if a.token]", "    attribution_maps = sorted(a for a in attribution_maps if a.token)"),
                                                (M, "@dataclass\nclass AttributionMap:", "@dataclass(order=True)\nclass AttributionMap:")], ["X-sort"]),
        op("index-encoder-rejects-large", "fire", [(G, "    if index < 0:\n        raise IndexError()", "    if not (0 <= index < len(INDEX_ALPHABET) ** 3):\n        raise IndexError()")], ["EST"]),
        op("greedy-drops-free-degree-guard", "fire", [(K_MATCH, "        if (matching[node] is not None) or (free_degrees[node] == 0):", "        if matching[node] is not None:")], ["EST"]),
        op("new-reachable-assert", "fire", [(E, "                ring_len = bond.src - bond.dst\n", "                ring_len = bond.src - bond.dst\n                assert ring_len > 1\n")], ["X-assert"]),
        op("free-degree-guard-as-lt1", "silent", [(K_MATCH, "        if (matching[node] is not None) or (free_degrees[node] == 0):", "        if (matching[node] is not None) or free_degrees[node] < 1:")]),
        op("narrow-handler", "fire", [(E, "    except SMILESParserError as err:", "    except KeyError as err:")], ["X-explicit"]),
        op("plain-valueerror", "fire", [(S, '                raise SMILESParserError(smiles, "hanging bracket [", i)', '                raise ValueError("hanging bracket")')], ["X-explicit"]),
        op("remove-stack-guard", "fire", [(S, "                if not branch_stack:\n                    err_msg = \"hanging ')' bracket\"\n                    raise SMILESParserError(smiles, err_msg, tok.start_idx)\n", "")], ["X-pop"]),
        op("no-progress-tokenizer", "fire", [(S, "        i = token.end_idx", "        i = token.start_idx")], ["TERM"]),
        op("revert-self-ring-guard", "fire", [(S, "    if latom.index == ratom.index:\n        err_msg = \"ring bond specified between an atom and itself\"\n        raise SMILESParserError(smiles, err_msg, ltoken.start_idx)\n\n", "")], ["EST"]),
        op("revert-aromatic-guard", "fire", [(M, "        if any(self._atoms[node].element not in AROMATIC_VALENCES\n               for node in ds):\n            return False  # aromatic bond on an atom that cannot be aromatic\n", "")], ["EST"]),
        op("format-input-into-template", "fire", [(E, '        err_msg = "failed to parse input\\n\\tSMILES: {}".format(smiles)', '        err_msg = ("failed to parse input\\n\\tSMILES: " + smiles + " ({})").format(err.reason)')], ["X-format"]),
        op("remove-chain-start-check", "fire", [(S, "        elif chain_start:\n            err_msg = \"SMILES chain begins with non-atom\"\n            raise SMILESParserError(smiles, err_msg, tok.start_idx)\n\n", "")], ["EST", "X-none-deref"]),
    ],
    "C10": [
        op("bonds-walked-in-written-order", "fire", [(E, "        out_bonds = sorted(mol.get_out_dirbonds(curr),\n                           key=lambda b: not b.ring_bond)", "        out_bonds = mol.get_out_dirbonds(curr)")], ["L8"]),
        op("ring-bonds-sorted-last", "fire", [(E, "                           key=lambda b: not b.ring_bond)", "                           key=lambda b: b.ring_bond)")], ["L8"]),
        op("isotope-0-not-printed", "fire", [(S, "        if atom.isotope is not None:\n            builder.append(str(atom.isotope))", "        if atom.isotope:\n            builder.append(str(atom.isotope))")], ["L7"]),
        op("symbol-isotope-0-read-as-absent", "fire", [(G, "    isotope = None if (isotope == \"\") else int(isotope)", "    isotope = (int(isotope) or None) if isotope else None")], ["L6", "L5"]),
        op("lowercase-h-count", "fire", [(S, '            builder.append("H")\n            builder.append(str(atom.h_count))', '            builder.append("h")\n            builder.append(str(atom.h_count))')], ["L3"]),
        op("decoder-drops-isotope-zero", "fire", [(G, '    isotope = None if (isotope == "") else int(isotope)\n    if element not in ELEMENTS:\n        return None\n    chirality = None', '    isotope = None if (isotope == "") else int(isotope)\n    isotope = isotope or None\n    if element not in ELEMENTS:\n        return None\n    chirality = None')], ["L5"]),
        op("strict-check-ignores-explicit-hydrogens", "fire", [(E, '        bond_cap = atom.bonding_capacity\n', '        bond_cap = get_bonding_capacity(atom.element, atom.charge)\n'), (E, 'from selfies.exceptions import EncoderError, SMILESParserError\n', 'from selfies.bond_constraints import get_bonding_capacity\nfrom selfies.exceptions import EncoderError, SMILESParserError\n')], ["L4"]),
        op("revert-charge-pattern", "fire", [(G, "[+-][1-9][0-9]*", "[+-][1-9]+")], ["L1"]),
        op("print-H-without-count", "fire", [(S, '            builder.append("H")\n            builder.append(str(atom.h_count))', '            builder.append("H")\n            if atom.h_count != 1:\n                builder.append(str(atom.h_count))')], ["L1", "L2"]),
        op("ring-lowercase", "fire", [(E, '"[{}Ring{}]".format(', '"[{}ring{}]".format(')], ["L1"]),
        op("stereo-on-branch", "fire", [(E, "                    _bond_to_selfies(bond, show_stereo=False),\n                    len(Q_as_symbols)", "                    _bond_to_selfies(bond, show_stereo=True),\n                    len(Q_as_symbols)")], ["L1"]),
        op("isotope-not-standardised", "fire", [(S, "    isotope = None if (isotope == \"\") else int(isotope)\n    is_aromatic", "    isotope = None if (isotope == \"\") else isotope\n    is_aromatic")], ["L2"]),
    ],
    "C11": [
        op("index-table-grows-on-lookup", "fire", [(K, "INDEX_CODE = {c: i for i, c in enumerate(INDEX_ALPHABET)}", "import collections\nINDEX_CODE = collections.defaultdict(int, {c: i for i, c in enumerate(INDEX_ALPHABET)})"),
                                                      (G, "INDEX_CODE.get(c, 0)", "INDEX_CODE[c]")], ["P2", "P1"]),
        op("recursion-limit-raised-in-call", "fire", [(E, "    if not mol.kekulize():", "    import sys\n    sys.setrecursionlimit(sys.getrecursionlimit() + 1)\n    if not mol.kekulize():")], ["P10"]),
        op("cache-atom-instance", "fire", [(G, "        _PROCESS_ATOM_CACHE[symbol] = output\n", "        _PROCESS_ATOM_CACHE[symbol] = (output[0], output[1]())\n"), (G, "    atom = atom_fac()\n", "    atom = atom_fac() if callable(atom_fac) else atom_fac\n")], ["P2", "P3"]),
        op("drop-memo-clear", "fire", [(B, "    get_bonding_capacity.cache_clear()", "    pass")], ["P4"]),
        op("iterate-str-set", "fire", [(B, "    key = element\n", "    for e in ELEMENTS:\n        pass\n    key = element\n")], ["P7"]),
        op("random", "fire", [(E, "    fragments = []\n", "    import random\n    random.random()\n    fragments = []\n")], ["P7"]),
        op("atom-value-equality", "fire", [(M, "    def invert_chirality(self) -> None:", "    def __eq__(self, o):\n        return self.element == o.element\n\n    def __hash__(self):\n        return hash(self.element)\n\n    def invert_chirality(self) -> None:")], ["P5"]),
        op("capacity-verdict-cached", "fire", [(G, "        _PROCESS_ATOM_CACHE[symbol] = output\n", "        if output[1]().bonding_capacity < 0:\n            output = (output[0], None)\n        _PROCESS_ATOM_CACHE[symbol] = output\n")], ["P2"]),
        op("module-level-ring-queue", "fire", [(D, "    rings = []\n", "    rings = _RINGS\n"), (D, "def decoder(", "_RINGS = []\n\n\ndef decoder(")], ["P3", "P1"]),
    ],
    "C12": [
        op("unchanged-looking-table-not-installed", "fire", [(B, "        _current_constraints = dict(bond_constraints)\n", "        if all(_current_constraints.get(k) == v for k, v in bond_constraints.items()):\n            return\n        _current_constraints = dict(bond_constraints)\n")], ["G2"]),
        op("unchanged-entries-skip-validation", "fire", [(B, "        for key, value in bond_constraints.items():\n", "        for key, value in bond_constraints.items():\n            if _current_constraints.get(key) == value:\n                continue\n")], ["G3"]),
        op("falsy-argument-replaced-by-default", "fire", [(B, "    global _current_constraints\n\n    if isinstance(bond_constraints, str):", "    global _current_constraints\n\n    bond_constraints = bond_constraints or \"default\"\n    if isinstance(bond_constraints, str):")], ["G3"]),
        op("return-live-dict", "fire", [(B, "    return dict(_current_constraints)", "    return _current_constraints")], ["G1"]),
        op("store-argument-uncopied", "fire", [(B, "        _current_constraints = dict(bond_constraints)", "        _current_constraints = bond_constraints")], ["G2"]),
        op("assign-before-validating", "fire", [(B, '        if "?" not in bond_constraints:', '        _current_constraints = dict(bond_constraints)\n        if "?" not in bond_constraints:')], ["G3"]),
        op("return-live-preset", "fire", [(B, "    return dict(_PRESET_CONSTRAINTS[name])", "    return _PRESET_CONSTRAINTS[name]")], ["G1"]),
        op("filtering-copy", "fire", [(B, "        _current_constraints = dict(bond_constraints)", "        _current_constraints = {k: v for k, v in bond_constraints.items() if v < 9}")], ["G5"]),
        op("mutate-preset-in-getter", "fire", [(B, "    return dict(_PRESET_CONSTRAINTS[name])", "    d = _PRESET_CONSTRAINTS[name]\n    d.setdefault('?', 8)\n    return dict(d)")], ["G4"]),
        op("identity-comprehension-copy", "silent", [(B, "        _current_constraints = dict(bond_constraints)", "        _current_constraints = {k: v for k, v in bond_constraints.items()}")]),
        op("lru-on-preset-getter", "fire", [(B, "def get_preset_constraints(name: str) -> Dict[str, int]:", "@functools.lru_cache()\ndef get_preset_constraints(name: str) -> Dict[str, int]:")], ["G1"]),
    ],
    "C13": [
        op("recovered-string-cut-at-nop", "fire", [(U, "    selfies = \"\".join(char_list)\n\n    return selfies", "    selfies = \"\".join(char_list)\n\n    return selfies.partition(\"[nop]\")[0]")], ["N3"]),
        op("shared-one-hot-rows", "fire", [(U, "        letter = [0] * len(vocab_stoi)\n        letter[index] = 1", "        letter = _ROWS.setdefault((index, len(vocab_stoi)), [0] * len(vocab_stoi))\n        letter[index] = 1"), (U, "def selfies_to_encoding(", "_ROWS = {}\n\n\ndef selfies_to_encoding(")], ["N3"]),
        op("filter-moved-to-main-loop", "fire", [(D, '            if symbol == "[nop]":\n                continue\n            if compatible:', "            if compatible:"),
                                                  (D, "            index, symbol = next(symbol_iter)\n            n_derived += 1", '            index, symbol = next(symbol_iter)\n            n_derived += 1\n            if symbol == "[nop]":\n                continue')], ["N1"]),
        op("index-reader-tokenises", "fire", [(D, "    _form_rings_bilocally(mol, rings)", "    list(split_selfies(selfies))\n    _form_rings_bilocally(mol, rings)")], ["N2", "N1"]),
        op("fragment-length-used", "fire", [(D, "        attribution_index += n", "        attribution_index += s.count(\"[\")")], ["N2"]),
        op("pad-plus-one", "fire", [(U, '        selfies += "[nop]" * (pad_to_len - len_selfies(selfies))', '        selfies += "[nop]" * (pad_to_len - len_selfies(selfies) + 1)')], ["N3"]),
    ],
    "C14": [
        op("length-counts-dots-of-stripped-copy", "fire", [(SU_, '    return selfies.count("[") + selfies.count(".")', '    return selfies.count("[") + selfies.strip(".").count(".")')], ["K4"]),
        op("closing-bracket-search-skips-a-char", "fire", [(SU_, '        right_idx = selfies.find("]", left_idx + 1)', '        right_idx = selfies.find("]", left_idx + 2)')], ["K5"]),
        op("emptiness-probe-consumes-iterator", "fire", [("selfies/utils/selfies_utils.py", "    alphabet = set()\n", "    alphabet = set()\n    if not any(selfies_iter):\n        return alphabet\n")], ["K6"]),
        op("alphabet-cached-alias", "fire", [("selfies/utils/selfies_utils.py", "    alphabet = set()\n    for s in selfies_iter:", "    alphabet = _SEEN\n    for s in selfies_iter:"),
                                             ("selfies/utils/selfies_utils.py", "def get_alphabet_from_selfies(", "_SEEN = set()\n\n\ndef get_alphabet_from_selfies(")], ["K3"]),
        op("fragments-joined-with-space", "fire", [(E, '    result = ".".join(fragments), attribution_maps', '    result = " ".join(fragments), attribution_maps')], ["K1"]),
    ],
    "C15": [
        op("missing-symbol-swallowed", "fire", [(U, "        integer_encoded.append(vocab_stoi[char])\n", "        try:\n            integer_encoded.append(vocab_stoi[char])\n        except KeyError:\n            if char == \".\":\n                raise\n")], ["U2"]),
        op("row-count-from-first-vector", "fire", [(U, "    selfies_list = []\n\n    for flat_one_hot in one_hot_batch:", "    selfies_list = []\n    L = len(one_hot_batch[0]) // len(vocab_itos) if one_hot_batch else 0\n\n    for flat_one_hot in one_hot_batch:"),
                                                      (U, "        L = len(flat_one_hot) // M\n", "")], ["U3"]),
        op("empty-vectors-skipped", "fire", [(U, "    for flat_one_hot in one_hot_batch:\n", "    for flat_one_hot in one_hot_batch:\n        if not flat_one_hot:\n            continue\n")], ["U4"]),
        op("recovered-string-cut-at-nop", "fire", [(U, "    selfies = \"\".join(char_list)\n\n    return selfies", "    selfies = \"\".join(char_list)\n\n    return selfies.partition(\"[nop]\")[0]")], ["U7"]),
        op("batch-ignores-pad", "fire", [(U, "        one_hot = selfies_to_encoding(selfies, vocab_stoi, pad_to_len,", "        one_hot = selfies_to_encoding(selfies, vocab_stoi, -1,")], ["U4"]),
        op("remove-enc-type-check", "fire", [(U, "    if enc_type not in (\"label\", \"one_hot\"):\n        raise ValueError(\"enc_type must be in ('label', 'one_hot')\")\n", "")], ["U1"]),
        op("get-with-default", "fire", [(U, "        integer_encoded.append(vocab_stoi[char])", "        integer_encoded.append(vocab_stoi.get(char, 0))")], ["U2"]),
        op("pad-plus-one", "fire", [(U, '        selfies += "[nop]" * (pad_to_len - len_selfies(selfies))', '        selfies += "[nop]" * (pad_to_len - len_selfies(selfies) + 1)')], ["U5"]),
        op("values-by-position", "fire", [(U, "    char_list = [vocab_itos[i] for i in integer_encoded]", "    symbols = list(vocab_itos.values())\n    char_list = [symbols[i] for i in integer_encoded]")], ["U2"]),
        op("shared-row", "fire", [(U, "    for index in integer_encoded:\n        letter = [0] * len(vocab_stoi)", "    letter = [0] * len(vocab_stoi)\n    for index in integer_encoded:")], ["U6"]),
    ],
    "C16": [
        op("index-arity-4", "fire", [(G, "def _build_ring_cache():\n    cache = dict()\n    for L in range(1, 4):", "def _build_ring_cache():\n    cache = dict()\n    for L in range(1, 5):")], ["I4"]),
        op("default-digit-1", "fire", [(G, "        index += INDEX_CODE.get(c, 0) * (len(INDEX_CODE) ** i)", "        index += INDEX_CODE.get(c, 1) * (len(INDEX_CODE) ** i)")], ["I3"]),
        op("radix-10", "fire", [(G, "        index //= base", "        index //= 10")], ["I5"]),
        op("read-position-not-symbol", "fire", [(D, "            index_symbols.append(next(symbol_iter)[-1])", "            index_symbols.append(next(symbol_iter)[0])")], ["I3"]),
        op("swap-S-P", "fire", [(K, '"[#C]", "[S]", "[P]"', '"[#C]", "[P]", "[S]"')], ["I1"]),
        op("no-reverse", "fire", [(G, "    return symbols[::-1]", "    return symbols")], ["I5"]),
    ],
    "C17": [
        op("encoder-branch-offset-constant-instead-of-shift", "fire", [(E, "                    attribution_index + len(derived))", "                    attribution_index + len(derived) + 2)"),
                                                                          (E, "                for j in range(start, end):\n                    attribution_maps[j].index += len(Q_as_symbols) + 1\n", "")], ["TE6"]),
        op("encoder-recursive-call-drops-own-offset", "fire", [(E, "                    mol, bond, bond.dst, attribution_maps,\n                    attribution_index + len(derived))", "                    mol, bond, bond.dst, attribution_maps, len(derived))")], ["TE6"]),
        op("encoder-shift-start-hoisted", "fire", [(E, "                           key=lambda b: not b.ring_bond)\n        for i, bond in enumerate(out_bonds):", "                           key=lambda b: not b.ring_bond)\n        start = len(attribution_maps)\n        for i, bond in enumerate(out_bonds):"),
                                                      (E, "                start = len(attribution_maps)\n                branch = _fragment_to_selfies(", "                branch = _fragment_to_selfies(")], ["TE6"]),
        op("encoder-shift-end-measured-before-call", "fire", [(E, "                start = len(attribution_maps)\n                branch = _fragment_to_selfies(", "                start = len(attribution_maps)\n                end = len(attribution_maps)\n                branch = _fragment_to_selfies("),
                                                                 (E, "                end = len(attribution_maps)\n\n                derived.append(branch_symbol)", "\n                derived.append(branch_symbol)")], ["TE6"]),
        op("encoder-offset-from-last-map", "fire", [(E, "        attribution_index += len(derived)", "        attribution_index = attribution_maps[-1].index + 1")], ["TE5"]),
        op("memoised-parse", "fire", [(S, "def smiles_to_mol(smiles: str, attributable: bool) -> MolecularGraph:", "import functools\n\n\n@functools.lru_cache(maxsize=256)\ndef smiles_to_mol(smiles: str, attributable: bool) -> MolecularGraph:")], ["NI"]),
        op("dash-not-counted-as-bond-token", "fire", [(S, "    is_root = (prev_atom is None)\n    if bond_char:\n        i += 1", "    is_root = (prev_atom is None)\n    if bond_char and bond_char != \"-\":\n        i += 1")], ["TE4"]),
        op("bond-token-test-spelled-is-not-none", "silent", [(S, "    is_root = (prev_atom is None)\n    if bond_char:\n        i += 1", "    is_root = (prev_atom is None)\n    if bond_char is not None:\n        i += 1")]),
        op("root-depends-on-attributable", "fire", [(M, "        if mark_root:\n            self._roots.append(atom.index)", "        if mark_root and not (self._attributable and len(self) > 50):\n            self._roots.append(atom.index)")], ["NI"]),
        op("return-under-flag", "fire", [(E, '    result = ".".join(fragments), attribution_maps\n    return result if attribute else result[0]', '    if attribute:\n        return ".".join(f for f in fragments if f), attribution_maps\n    return ".".join(fragments)')], ["NI"]),
        op("count-requested-not-read", "fire", [(D, "                n_derived += n_read\n", "                n_derived += n\n")], ["TI2"]),
        op("reader-hides-count", "fire", [(D, "            n_read += 1\n", "            n_read += 0\n            n_read = n_symbols\n")], ["TI1", "TI2"]),
        op("offset-off-by-one-per-fragment", "fire", [(D, "        attribution_index += n\n", "        attribution_index += n + 1\n")], ["TI3"]),
        op("enumerate-from-one", "fire", [(D, "enumerate(_tokenize_selfies(s, compatible))", "enumerate(_tokenize_selfies(s, compatible), 1)")], ["TI3"]),
        op("finite-top-budget", "fire", [(D, 'max_derive=float("inf"),', "max_derive=10 ** 6,")], ["TI3"]),
        op("branch-symbol-position-without-offset", "fire", [(D, "[Attribution(index + attribution_index, symbol)\n                     ] if", "[Attribution(index, symbol)\n                     ] if")], ["TI4"]),
        op("recursion-offset-shifted", "fire", [(D, "                    attribution_index=attribution_index\n", "                    attribution_index=attribution_index + 1\n")], ["TI4"]),
        op("bond-not-attributed", "fire", [(D, "                o = mol.add_bond(src=src, dst=dst,\n                                 order=bond_order, stereo=stereo)\n                mol.add_attribution(\n                    o, attribute_stack +\n                    [Attribution(index + attribution_index, symbol)]\n                    if attribute_stack is not None else None)\n",
                                             "                o = mol.add_bond(src=src, dst=dst,\n                                 order=bond_order, stereo=stereo)\n")], ["TC1"]),
        op("branch-stack-not-extended", "fire", [(D, "                    attribute_stack=attribute_stack +\n                    [Attribution(index + attribution_index, symbol)\n                     ] if attribute_stack is not None else None,", "                    attribute_stack=attribute_stack,")], ["TC1"]),
        op("writer-index-not-end-of-token", "fire", [(S, "                    _strlen(derived) - 1 + attribution_index,\n                    token, bond_attribution))\n                ends =", "                    _strlen(derived) + attribution_index,\n                    token, bond_attribution))\n                ends =")], ["TO1"]),
        op("writer-index-before-append", "fire", [(S, "            derived.append(token)\n            attribution_maps.append(AttributionMap(\n                _strlen(derived) - 1 + attribution_index,\n                token, mol.get_attribution(curr_atom)))",
                                                    "            attribution_maps.append(AttributionMap(\n                _strlen(derived) - 1 + attribution_index,\n                token, mol.get_attribution(curr_atom)))\n            derived.append(token)")], ["TO1"]),
        op("writer-attribution-of-other-object", "fire", [(S, "                token, mol.get_attribution(curr_atom)))\n\n        out_bonds = mol.get_out_dirbonds(curr)", "                token, mol.get_attribution(mol.get_atom(root))))\n\n        out_bonds = mol.get_out_dirbonds(curr)")], ["TO1"]),
        op("separator-not-counted", "fire", [(S, '        attribution_index += _strlen(derived) + 1  # fragments are "."-joined', "        attribution_index += _strlen(derived)")], ["TO2"]),
        op("encoder-atom-attributed-to-bond", "fire", [(E, "            token, mol.get_attribution(curr_atom)))", "            token, mol.get_attribution(bond_into_curr)))")], ["TE1"]),
        op("parser-attributes-previous-token", "fire", [(S, "    o = mol.add_atom(atom, mark_root=is_root)\n    mol.add_attribution(o, [Attribution(i, str(tok))])", "    o = mol.add_atom(atom, mark_root=is_root)\n    mol.add_attribution(o, [Attribution(i, str(prev_atom))])")], ["TE2"]),
        op("kekulize-clears-attribution", "fire", [(M, "    def kekulize(self) -> bool:\n", "    def kekulize(self) -> bool:\n        self._attribution.clear()\n")], ["TE3"]),
        op("writer-running-counter", "silent", [(S, "    stack = [(root, 0, len(mol.get_out_dirbonds(root)), False)]\n\n    while stack:", "    stack = [(root, 0, len(mol.get_out_dirbonds(root)), False)]\n    written = 0\n\n    while stack:"),
                                                 (S, "            derived.append(token)\n            attribution_maps.append(AttributionMap(\n                _strlen(derived) - 1 + attribution_index,\n                token, mol.get_attribution(curr_atom)))",
                                                     "            derived.append(token)\n            written = _strlen(derived)\n            attribution_maps.append(AttributionMap(\n                written - 1 + attribution_index,\n                token, mol.get_attribution(curr_atom)))")]),
        op("offset-accumulated-in-two-steps", "silent", [(D, "        attribution_index += n\n", "        consumed = n\n        attribution_index = attribution_index + consumed\n")]),
    ],
    "C18": [
        op("expl-suffix-stripped-as-a-character-set", "fire", [(C, "            bond_char, atom_symbol = \"\", symbol[1:-5]", "            bond_char, atom_symbol = \"\", symbol.rstrip(\"expl]\")[1:]")], ["M3"]),
        op("rejected-symbol-cached-as-none", "fire", [(G, "        output = _process_atom_selfies_no_cache(symbol)\n        if output is None:\n            return None\n        _PROCESS_ATOM_CACHE[symbol] = output",
                                                           "        output = _process_atom_selfies_no_cache(symbol)\n        _PROCESS_ATOM_CACHE[symbol] = output\n        if output is None:\n            return None")], ["M6"]),
        op("ring-symbol-not-validated-in-state-0", "fire", [(D, '            output = process_ring_symbol(symbol)\n            if output is None:\n                _raise_decoder_error(selfies, symbol)\n            ring_type, n, stereo = output\n\n            if state == 0:\n                next_state = state\n            else:\n                ring_order, next_state = next_ring_state(ring_type, state)', '            if state == 0:\n                next_state = state\n            else:\n                output = process_ring_symbol(symbol)\n                if output is None:\n                    _raise_decoder_error(selfies, symbol)\n                ring_type, n, stereo = output\n                ring_order, next_state = next_ring_state(ring_type, state)')], ["M4"]),
        op("wrong-table-entry", "fire", [(C, '("[Branch{}_2]", "[=Branch{}]")', '("[Branch{}_2]", "[#Branch{}]")')], ["M1"]),
        op("modernize-regardless-of-flag", "fire", [(D, "            if compatible:\n                symbol = modernize_symbol(symbol)", "            symbol = modernize_symbol(symbol)")], ["M5"]),
        op("flag-reassigned", "fire", [(D, "    for s in selfies.split(\".\"):", "    for s in selfies.split(\".\"):\n        compatible = compatible and \"expl\" in s")], ["M5"]),
        op("expl-with-brackets", "fire", [(C, "atom_to_smiles(atom, brackets=False)", "atom_to_smiles(atom, brackets=True)")], ["M3"]),
    ],
    "C19": [
        op("placeholder-stored-before-the-parse", "fire", [(G, "        output = _process_atom_selfies_no_cache(symbol)\n        if output is None:\n            return None\n        _PROCESS_ATOM_CACHE[symbol] = output\n",
                                                              "        _PROCESS_ATOM_CACHE[symbol] = None\n        output = _process_atom_selfies_no_cache(symbol)\n        if output is None:\n            del _PROCESS_ATOM_CACHE[symbol]\n            return None\n        _PROCESS_ATOM_CACHE[symbol] = output\n")], ["H3", "H1"]),
        op("recursion-limit-raised-in-call", "fire", [(E, "    if not mol.kekulize():", "    import sys\n    sys.setrecursionlimit(sys.getrecursionlimit() + 1)\n    if not mol.kekulize():")], ["H6"]),
        op("module-level-scratch-list", "fire", [(D, "    rings = []\n", "    rings = _RINGS\n    rings.clear()\n"), (D, "def decoder(", "_RINGS = []\n\n\ndef decoder(")], ["H1"]),
        op("mutable-default", "fire", [(D, "def _form_rings_bilocally(mol, rings):\n    rings_made = [0] * len(mol)", "def _form_rings_bilocally(mol, rings, seen=[]):\n    seen.append(1)\n    rings_made = [0] * len(mol)")], ["H1"]),
        op("class-level-attribute", "fire", [(M, "    def __init__(self, attributable=False):\n        self._roots = list()", "    _roots = list()\n\n    def __init__(self, attributable=False):\n        pass")], ["H1"]),
        op("cache-atom-instance", "fire", [(G, "        _PROCESS_ATOM_CACHE[symbol] = output\n", "        _PROCESS_ATOM_CACHE[symbol] = (output[0], output[1]())\n"), (G, "    atom = atom_fac()\n", "    atom = atom_fac() if callable(atom_fac) else atom_fac\n")], ["H3", "H1"]),
        op("lru-on-token-deque", "fire", [(S, "    tokens = deque(tokenize_smiles(smiles))", "    tokens = _tok(smiles)"), (S, "def smiles_to_mol(", "import functools\n\n\n@functools.lru_cache()\ndef _tok(smiles):\n    return deque(tokenize_smiles(smiles))\n\n\ndef smiles_to_mol(")], ["H1"]),
    ],
}


def tree_digest(root):
    """sha256 over the python sources of <root>/selfies (path + content)"""
    import hashlib
    h = hashlib.sha256()
    base = os.path.join(root, "selfies")
    for dp, dn, fs in sorted(os.walk(base)):
        dn.sort()
        for f in sorted(fs):
            if f.endswith(".py"):
                p_ = os.path.join(dp, f)
                h.update(os.path.relpath(p_, root).encode())
                with open(p_, "rb") as fh:
                    h.update(fh.read())
    return h.hexdigest()


def on_confirmed_tree():
    """the operators were confirmed (each fires its rule) against the tree whose digest is recorded in selftest/baseline.json; on
    any other tree an operator's edit may land in code it was not written for"""
    import json
    p_ = os.path.join(os.path.dirname(os.path.abspath(__file__)), "baseline.json")
    try:
        with open(p_) as fh:
            return json.load(fh).get("selfies_sha256") == tree_digest(REPO)
    except (OSError, ValueError):
        return False


def _apply(root, edits):
    for rel, old, new in edits:
        p = os.path.join(root, rel)
        if not os.path.exists(p):
            return "missing file"
        with open(p, encoding="utf-8") as fh:
            s = fh.read()
        if old not in s:
            return "anchor absent"
        s = s.replace(old, new, 1)
        try:
            compile(s, p, "exec")
        except SyntaxError as e:
            return "variant does not compile: %s" % e
        with open(p, "w", encoding="utf-8") as fh:
            fh.write(s)
    return None


def _apply_patch(root, patch):
    try:
        r = subprocess.run(["git", "apply", "--include=selfies/*", patch], cwd=root, capture_output=True, text=True)
    except OSError as e:
        return "git not available: %s" % e
    if r.returncode != 0:
        return "patch does not apply to the current tree"
    for dp, _, fs in os.walk(os.path.join(root, "selfies")):
        for f in fs:
            if f.endswith(".py"):
                p = os.path.join(dp, f)
                try:
                    with open(p, encoding="utf-8") as fh:
                        compile(fh.read(), p, "exec")
                except SyntaxError as e:
                    return "variant does not compile: %s" % e
    return None


def benign_patches():
    """behaviour-preserving refactorings written by independent sub-agents (equivalence demonstrated by them on
    exhaustive / sampled inputs and the full suite, see selftest/benign/INDEX.txt): every check must stay silent"""
    d = os.path.join(os.path.dirname(os.path.abspath(__file__)), "benign")
    out = []
    for f in sorted(os.listdir(d)) if os.path.isdir(d) else []:
        if f.endswith(".diff"):
            out.append(dict(name="refactoring-" + f[:-5], expect="silent", edits=[], rules=(), patch=os.path.join(d, f)))
    return out


def _run_one(args):
    pid, o = args
    d = tempfile.mkdtemp(prefix="sa_selfval_")
    try:
        shutil.copytree(os.path.join(REPO, "selfies"), os.path.join(d, "selfies"))
        err = _apply_patch(d, o["patch"]) if o.get("patch") else _apply(d, o["edits"])
        if err is not None:
            return (o, "inapplicable", err, [])
        env = dict(os.environ)
        r = subprocess.run(["/venv/bin/python", "-m", "sa.check", pid, "--tier", "quick", "--scratch", "--repo", d],
                           cwd=os.path.dirname(os.path.dirname(os.path.abspath(__file__))), capture_output=True, text=True, env=env)
        rules = sorted({l.split()[1].split("=", 1)[1] for l in r.stdout.splitlines() if l.startswith("SCRATCH-VIOLATION")})
        if r.returncode == 2:
            return (o, "analysis-error", (r.stdout.strip().splitlines() or ["?"])[-1][:200], rules)
        return (o, "fired" if r.returncode == 1 else "silent", "", rules)
    finally:
        shutil.rmtree(d, ignore_errors=True)


def validate(pid, rep, seed):
    ops = list(OPS.get(pid, [])) + list(BENIGN) + benign_patches()
    t0 = time.time()
    with ThreadPoolExecutor(max_workers=min(16, max(1, len(ops)))) as ex:
        results = list(ex.map(_run_one, [(pid, o) for o in ops]))
    caught = app = bs = ba = 0
    problems = []
    unanalysable = []
    unconfirmed = []
    confirmed = on_confirmed_tree()
    detail = []
    for o, status, msg, rules in results:
        detail.append({"operator": o["name"], "expect": o["expect"], "outcome": status, "rules": rules, "note": msg})
        if status == "inapplicable":
            continue
        if o["expect"] == "fire":
            if status == "analysis-error":
                # the variant (this tree + the seeded break) cannot be modelled: no verdict about it either way.  On the pinned
                # tree every operator is analysable; on a refactored tree an operator's edit may meet code it was not written for.
                unanalysable.append(o["name"])
                continue
            app += 1
            ok = status == "fired" and (not o["rules"] or any(any(r == x or r.startswith(x) for x in o["rules"]) for r in rules))
            if ok:
                caught += 1
            elif confirmed:
                problems.append("seeded break '%s' not caught (outcome %s %s %s)" % (o["name"], status, rules, msg))
            else:
                # not the tree the operators were confirmed on: the same text edit need not break the property here
                unconfirmed.append("%s (%s %s)" % (o["name"], status, rules))
        else:
            ba += 1
            if status == "silent":
                bs += 1
            else:
                problems.append("benign twin '%s' raised an alarm (%s %s %s)" % (o["name"], status, rules, msg))
    if unconfirmed:
        rep.note("tree differs from the one the self-validation operators were confirmed on; %d operator(s) applied but did not fire "
                 "their rule here (no verdict): %s" % (len(unconfirmed), "; ".join(unconfirmed[:5])))
        if not caught:
            problems.append("no seeded break of this property is caught on this (changed) tree: %s" % "; ".join(unconfirmed[:4]))
    rep.analysed["selfval_confirmed_tree"] = confirmed
    if unanalysable and not caught:
        problems.append("no seeded break could be demonstrated: %d operator variant(s) are not analysable (%s) and none fired"
                        % (len(unanalysable), ", ".join(unanalysable[:4])))
    rep.analysed["selfval_unanalysable_variants"] = unanalysable
    rep.analysed["selfval"] = {"seeded_caught": caught, "seeded_applicable": app, "benign_silent": bs, "benign_applicable": ba,
                               "operators": detail, "wall_s": round(time.time() - t0, 1)}
    rep.ob("SELFVAL", not problems, None, None, loc="selftest/operators.py",
           construct="checker self-validation: %d/%d seeded breaks caught, %d/%d benign twins silent" % (caught, app, bs, ba),
           how="every applicable seeded break fires the expected rule; every benign twin stays silent", key="selfval",
           witness="; ".join(problems)[:600] or None)
    if problems:
        from sa.core import load_known
        known = {k["key"] for k in load_known().get("known", []) if k.get("property") == pid}
        rep.obs.pop()
        rep.counts["SELFVAL"] -= 1
        if not [o for o in rep.violations if o.key not in known]:
            # the tree itself passes but the checker lost sensitivity / precision: analysis error, never a silent pass
            raise AnalysisError("self-validation failed: " + "; ".join(problems)[:1200])
        rep.note("self-validation skipped conclusions: the tree itself has violations (%s)" % "; ".join(problems)[:300])
